package main

import (
	"fmt"
	"go/ast"
	"go/constant"
	"go/types"
	"sort"
	"strings"

	"golang.org/x/tools/go/ssa"
)

var annTags = []string{"type", "class", "field", "param", "return", "alias", "generic", "overload", "vararg", "enum"}

// annotation type node kinds produced by the annotation parser
func annTypeKinds(c *Ctx) map[string]bool {
	kinds := map[string]bool{}
	sp := c.SSA[annAstPkg]
	if sp == nil || sp.Type("Type") == nil {
		return kinds
	}
	it := sp.Type("Type").Type()
	for _, f := range c.ModFns() {
		if f.Package() == nil || f.Package().Pkg.Path() != annParPkg {
			continue
		}
		for _, b := range f.Blocks {
			for _, ins := range b.Instrs {
				mi, ok := ins.(*ssa.MakeInterface)
				if !ok || !types.Identical(types.Unalias(mi.Type()), it) {
					continue
				}
				if pp, nn := namedPkgName(mi.X.Type()); pp == annAstPkg {
					kinds[nn] = true
				}
			}
		}
	}
	return kinds
}

var ruleAnnA3 = &Rule{
	Name:    "ANN/A3-type-node-exhaustive",
	NeedSSA: true,
	Text:    "every annotation type node kind that the annotation parser produces (concrete types converted to annotateast.Type in package annotateparser) has a case in the printer TypeConvertStr: a kind without a case prints as nothing, so hover / completion detail show a type that lost structure (the selective traversals GetAllNormalStrList, TraverseOneType, GetTypeLocInfo legitimately skip kinds and are not constrained)",
	Run: func(c *Ctx) []Ob {
		var obs []Ob
		kinds := annTypeKinds(c)
		var names []string
		for k := range kinds {
			names = append(names, k)
		}
		sort.Strings(names)
		for _, fn := range []string{"TypeConvertStr"} {
			f := c.SSAFunc(annAstPkg, "", fn)
			if f == nil {
				obs = append(obs, Ob{Key: "ANN/A3:" + fn, Verdict: UNDECIDED, Note: "slot unresolved: annotateast." + fn})
				continue
			}
			cases := typeSwitchCases(f)
			for _, k := range names {
				key := fmt.Sprintf("ANN/A3:%s:%s", fn, k)
				if cases[k] {
					obs = append(obs, Ob{Key: key, Site: c.Pos(f.Pos()), Verdict: OK})
				} else {
					obs = append(obs, Ob{Key: key, Site: c.Pos(f.Pos()), Verdict: VIOLATION, Note: fmt.Sprintf("the annotation parser produces %s but %s has no case for it", k, fn)})
				}
			}
		}
		obs = append(obs, floor("ANN/A3-type-node-exhaustive", "annotation type node kinds produced by the parser", len(kinds), 5))
		return obs
	},
}

var ruleAnnA4 = &Rule{
	Name: "ANN/A4-tag-table",
	Text: "the keyword table of the annotation lexer contains every documented tag (type class field param return alias generic overload vararg enum) and parserOneState dispatches the token kind of each: an undocumented gap makes a documented annotation line a warning or silently ignored",
	Run: func(c *Ctx) []Ob {
		var obs []Ob
		p := c.ByPath[annLexPkg]
		if p == nil {
			return []Ob{{Key: "ANN/A4:slots", Verdict: UNDECIDED, Note: "slot unresolved: package annotatelexer"}}
		}
		kw := map[string]int64{}
		var pos ast.Node
		for _, f := range p.Syntax {
			ast.Inspect(f, func(n ast.Node) bool {
				vs, ok := n.(*ast.ValueSpec)
				if !ok || len(vs.Names) != 1 || vs.Names[0].Name != "keywords" || len(vs.Values) != 1 {
					return true
				}
				cl, ok := vs.Values[0].(*ast.CompositeLit)
				if !ok {
					return true
				}
				pos = cl
				for _, el := range cl.Elts {
					kv := el.(*ast.KeyValueExpr)
					ktv, vtv := p.TypesInfo.Types[kv.Key], p.TypesInfo.Types[kv.Value]
					if ktv.Value != nil && vtv.Value != nil {
						v, _ := constant.Int64Val(vtv.Value)
						kw[constant.StringVal(ktv.Value)] = v
					}
				}
				return false
			})
		}
		if pos == nil {
			return []Ob{{Key: "ANN/A4:slots", Verdict: UNDECIDED, Note: "slot unresolved: annotatelexer.keywords"}}
		}
		// dispatch cases of parserOneState
		pp, fd := c.FuncDecl(annParPkg, "", "parserOneState")
		disp := map[int64]bool{}
		if fd != nil {
			ast.Inspect(fd.Body, func(n ast.Node) bool {
				// the table form: parser := stateParserMap[kind] with a package-level map literal keyed by token kinds
				if ix, isIx := n.(*ast.IndexExpr); isIx {
					if id, isId := ix.X.(*ast.Ident); isId {
						if obj, isVar := pp.TypesInfo.Uses[id].(*types.Var); isVar && obj.Parent() == pp.Types.Scope() {
							for _, sf := range pp.Syntax {
								ast.Inspect(sf, func(m ast.Node) bool {
									vs, ok := m.(*ast.ValueSpec)
									if !ok || len(vs.Names) != 1 || pp.TypesInfo.Defs[vs.Names[0]] != obj || len(vs.Values) != 1 {
										return true
									}
									if cl, ok := vs.Values[0].(*ast.CompositeLit); ok {
										for _, el := range cl.Elts {
											if kv, ok := el.(*ast.KeyValueExpr); ok {
												if tv, ok := pp.TypesInfo.Types[kv.Key]; ok && tv.Value != nil {
													v, _ := constant.Int64Val(tv.Value)
													disp[v] = true
												}
											}
										}
									}
									return false
								})
							}
						}
					}
				}
				cc, ok := n.(*ast.CaseClause)
				if !ok {
					return true
				}
				for _, e := range cc.List {
					if tv, ok := pp.TypesInfo.Types[e]; ok && tv.Value != nil {
						v, _ := constant.Int64Val(tv.Value)
						disp[v] = true
					}
				}
				return true
			})
		}
		for _, tag := range annTags {
			key := "ANN/A4:tag:" + tag
			k, ok := kw[tag]
			switch {
			case !ok:
				obs = append(obs, Ob{Key: key, Site: c.Pos(pos.Pos()), Verdict: VIOLATION, Note: fmt.Sprintf("documented tag @%s is not in annotatelexer.keywords", tag)})
			case fd == nil:
				obs = append(obs, Ob{Key: key, Verdict: UNDECIDED, Note: "slot unresolved: annotateparser.parserOneState"})
			case !disp[k]:
				obs = append(obs, Ob{Key: key, Site: c.Pos(fd.Pos()), Verdict: VIOLATION, Note: fmt.Sprintf("parserOneState has no case for the token kind of @%s: the line is dropped as not valid", tag)})
			default:
				obs = append(obs, Ob{Key: key, Site: c.Pos(pos.Pos()), Verdict: OK})
			}
		}
		return obs
	},
}

// appendedField: ins stores append(load(fa), ...) back into field fa of a struct allocated in this function
func appendedField(ins ssa.Instruction) (*ssa.Alloc, string, bool) {
	st, ok := ins.(*ssa.Store)
	if !ok {
		return nil, "", false
	}
	call, ok := st.Val.(*ssa.Call)
	if !ok {
		return nil, "", false
	}
	b, ok := call.Call.Value.(*ssa.Builtin)
	if !ok || b.Name() != "append" {
		return nil, "", false
	}
	fa, ok := st.Addr.(*ssa.FieldAddr)
	if !ok {
		return nil, "", false
	}
	al, ok := fa.X.(*ssa.Alloc)
	if !ok {
		return nil, "", false
	}
	return al, fieldName(fa.X.Type(), fa.Field), true
}

// lists of one state that are NOT index-paired (reviewed; "a~b" in name order) — none on this tree
var independentLists = map[string]bool{}

var ruleAnnA5 = &Rule{
	Name:    "ANN/A5-parallel-lists",
	NeedSSA: true,
	Text:    "the annotation state builders keep index-paired lists (NameList / ParentNameList / ParentLocList, ParamNameList / ParamTypeList, …): inside one loop, a list of the state being built that is appended on some path through the loop body is appended on every such path, so all lists of one state stay the same length and consumers that pair them by index read the right element",
	Run: func(c *Ctx) []Ob {
		var obs []Ob
		nLoops := 0
		for _, f := range c.ModFns() {
			if f.Package() == nil || f.Package().Pkg.Path() != annParPkg {
				continue
			}
			loops := loopsOf(f)
			var headers []*ssa.BasicBlock
			for h := range loops {
				headers = append(headers, h)
			}
			sort.Slice(headers, func(i, j int) bool { return headers[i].Index < headers[j].Index })
			for li, h := range headers {
				body := loops[h]
				// fields appended in the loop, per struct alloc
				type fk struct {
					al   *ssa.Alloc
					name string
				}
				may := map[fk]bool{}
				for b := range body {
					for _, ins := range b.Instrs {
						if al, name, ok := appendedField(ins); ok {
							may[fk{al, name}] = true
						}
					}
				}
				if len(may) < 2 {
					continue
				}
				nLoops++
				// must: on every path from the header once around the body (to a back edge or an exit) the append occurs
				var keys []fk
				for k := range may {
					keys = append(keys, k)
				}
				sort.Slice(keys, func(i, j int) bool { return keys[i].name < keys[j].name })
				must := map[fk]bool{}
				for _, k := range keys {
					// dataflow within the loop: seen = append executed since header on all paths
					seen := map[*ssa.BasicBlock]bool{}
					for b := range body {
						seen[b] = true
					}
					outv := map[*ssa.BasicBlock]bool{}
					for b := range body {
						outv[b] = true
					}
					for changed := true; changed; {
						changed = false
						for b := range body {
							in := true
							if b == h {
								in = false
							} else {
								for _, p := range b.Preds {
									if body[p] {
										in = in && outv[p]
									}
								}
							}
							o := in
							for _, ins := range b.Instrs {
								if al, name, ok := appendedField(ins); ok && al == k.al && name == k.name {
									o = true
								}
							}
							if o != outv[b] {
								outv[b] = o
								changed = true
							}
						}
					}
					ok := true
					for b := range body {
						for _, s := range b.Succs {
							if s == h || !body[s] { // back edge or loop exit
								if !outv[b] {
									// the first pass through an exit that happens before anything is appended (e.g. `for cond {`) is fine
									// only when nothing at all was appended on that path
									ok = false
								}
							}
						}
					}
					must[k] = ok
				}
				// pairwise lockstep: two lists of the same state that are both appended only on SOME paths must be appended on
				// the SAME paths (round 8: a line number recorded for a line whose state is then discarded)
				for i := 0; i < len(keys); i++ {
					for j := i + 1; j < len(keys); j++ {
						k1, k2 := keys[i], keys[j]
						if k1.al != k2.al || must[k1] || must[k2] {
							continue // the every-path rule below speaks about these
						}
						// forward may-analysis over the body: set of (appended1, appended2) states, as a 4-bit mask
						st := map[*ssa.BasicBlock]uint8{}
						for changed := true; changed; {
							changed = false
							for b := range body {
								var in uint8
								if b == h {
									in = 1 // (false,false)
								} else {
									for _, p := range b.Preds {
										if body[p] {
											in |= st[p]
										}
									}
								}
								o := in
								for _, ins := range b.Instrs {
									al, name, ok := appendedField(ins)
									if !ok || al != k1.al {
										continue
									}
									var nx uint8
									for bit := uint8(0); bit < 4; bit++ {
										if o&(1<<bit) == 0 {
											continue
										}
										a1, a2 := bit&1 != 0, bit&2 != 0
										if name == k1.name {
											a1 = true
										}
										if name == k2.name {
											a2 = true
										}
										var nb uint8
										if a1 {
											nb |= 1
										}
										if a2 {
											nb |= 2
										}
										nx |= 1 << nb
									}
									o = nx
								}
								if o != st[b] {
									st[b] = o
									changed = true
								}
							}
						}
						var atEnd uint8
						for b := range body {
							for _, sc := range b.Succs {
								if sc == h || !body[sc] {
									atEnd |= st[b]
								}
							}
						}
						pkey := fmt.Sprintf("ANN/A5:%s:loop%d:%s~%s", f.Name(), li+1, k1.name, k2.name)
						if atEnd&(1<<1|1<<2) != 0 && !independentLists[k1.name+"~"+k2.name] {
							obs = append(obs, Ob{Key: pkey, Site: c.Pos(h.Instrs[0].Pos()), Verdict: VIOLATION,
								Note: fmt.Sprintf("%s and %s of the same state are both appended on some paths of the loop, but not on the same ones: a path appends one without the other and the index pairing shifts from there on", k1.name, k2.name)})
						} else {
							obs = append(obs, Ob{Key: pkey, Site: c.Pos(h.Instrs[0].Pos()), Verdict: OK, Note: "appended on the same paths"})
						}
					}
				}
				// exits taken before ANY list is appended do not desynchronise: recompute "any appended" must
				anyMust := false
				for _, k := range keys {
					if must[k] {
						anyMust = true
					}
				}
				for _, k := range keys {
					key := fmt.Sprintf("ANN/A5:%s:loop%d:%s", f.Name(), li+1, k.name)
					if must[k] || !anyMust {
						obs = append(obs, Ob{Key: key, Site: c.Pos(h.Instrs[0].Pos()), Verdict: OK})
						continue
					}
					// some sibling list of the same struct is appended on every path but this one is not
					sib := ""
					for _, k2 := range keys {
						if k2.al == k.al && must[k2] {
							sib = k2.name
						}
					}
					if sib == "" {
						obs = append(obs, Ob{Key: key, Site: c.Pos(h.Instrs[0].Pos()), Verdict: OK})
						continue
					}
					obs = append(obs, Ob{Key: key, Site: c.Pos(h.Instrs[0].Pos()), Verdict: VIOLATION,
						Note: fmt.Sprintf("%s is appended only on some paths of the loop while %s of the same state grows on every path: the lists get out of step and index pairing attaches entries to the wrong name", k.name, sib)})
				}
			}
		}
		obs = append(obs, floor("ANN/A5-parallel-lists", "loops that append to several lists of one state", nLoops, 2))
		_ = strings.Join
		return obs
	},
}

// ---------------------------------------------------------------------------------------------
// A6: the table of built-in annotation type names contains every documented default type

// documented default types (docs/manual/annotate.md, "Lua的默认类型有"); frozen reference
var documentedDefaultTypes = []string{"nil", "boolean", "number", "string", "function", "userdata", "thread", "any", "table", "void"}

var ruleAnnA6 = &Rule{
	Name:    "ANN/A6-builtin-type-table",
	NeedSSA: true,
	Text:    "the table of built-in annotation type names (GlobalConfig.ignoreSysAnnotateTypeMap, consulted before an `undefined annotation type` warning is issued) is filled with every default type the manual documents (nil boolean number string function userdata thread any table void): a missing name makes a conforming annotation line such as `---@type userdata` a warning. The names are collected from the string constants of every function that stores into that map (direct assignments or a loop over a constant list)",
	Run: func(c *Ctx) []Ob {
		var obs []Ob
		commonPkg := modPath + "/langserver/check/common"
		have := map[string]bool{}
		var site string
		n := 0
		for _, f := range c.ModFns() {
			writes := false
			for _, b := range f.Blocks {
				for _, ins := range b.Instrs {
					mu, ok := ins.(*ssa.MapUpdate)
					if !ok {
						continue
					}
					ld, ok := mu.Map.(*ssa.UnOp)
					if !ok {
						continue
					}
					fa, ok := ld.X.(*ssa.FieldAddr)
					if !ok || fieldOf(fa).Name() != "ignoreSysAnnotateTypeMap" {
						continue
					}
					if p, nm := namedPkgName(fa.X.Type()); p != commonPkg || nm != "GlobalConfig" {
						continue
					}
					writes = true
					if site == "" {
						site = c.Pos(mu.Pos())
					}
				}
			}
			if !writes {
				continue
			}
			n++
			for _, b := range f.Blocks {
				for _, ins := range b.Instrs {
					for _, op := range ins.Operands(nil) {
						if k, ok := (*op).(*ssa.Const); ok && k.Value != nil && k.Value.Kind() == constant.String {
							have[constant.StringVal(k.Value)] = true
						}
					}
				}
			}
		}
		if n == 0 {
			return []Ob{{Key: "ANN/A6:slots", Verdict: UNDECIDED, Note: "slot unresolved: no function stores into GlobalConfig.ignoreSysAnnotateTypeMap"}}
		}
		for _, t := range documentedDefaultTypes {
			key := "ANN/A6:type:" + t
			if have[t] {
				obs = append(obs, Ob{Key: key, Site: site, Verdict: OK})
			} else {
				obs = append(obs, Ob{Key: key, Site: site, Verdict: VIOLATION, Note: "documented default type " + t + " is not inserted into the built-in type table: `---@type " + t + "` is reported as an undefined annotation type"})
			}
		}
		return obs
	},
}
