package langserver

import (
	"context"
	"io/ioutil"
	"os"
	"path/filepath"
	"testing"

	lsp "luahelper-lsp/langserver/protocol"
)

// Demonstrates the LOC finding: the outline range of a table with members must still contain the
// declaring identifier (C19) and have start <= end (C04).
func TestFindingOutlineRangeContainsIdentifier(t *testing.T) {
	dir, _ := ioutil.TempDir("", "lhfinding")
	defer os.RemoveAll(dir)
	dir, _ = filepath.EvalSymlinks(dir)
	src := "tbl = {\n    alpha = 1,\n    beta_long_name = 2,\n}\nlocal loc = {\n    one = 1,\n    two_long_name = 2,\n}\nreturn loc\n"
	file := filepath.Join(dir, "a.lua")
	ioutil.WriteFile(file, []byte(src), 0o644)
	s := createLspTest(dir, "file://"+dir)
	ctx := context.Background()
	if err := s.TextDocumentDidOpen(ctx, lsp.DidOpenTextDocumentParams{TextDocument: lsp.TextDocumentItem{URI: lsp.DocumentURI(file), Text: src}}); err != nil {
		t.Fatal(err)
	}
	syms, err := s.TextDocumentSymbol(ctx, lsp.DocumentSymbolParams{TextDocument: lsp.TextDocumentIdentifier{URI: lsp.DocumentURI(file)}})
	if err != nil {
		t.Fatal(err)
	}
	want := map[string][2]uint32{"tbl": {0, 0}, "local loc": {4, 6}} // line, column of the declaring identifier
	found := 0
	for _, sy := range syms {
		w, ok := want[sy.Name]
		if !ok {
			continue
		}
		found++
		r := sy.Range
		if r.Start.Line > w[0] || (r.Start.Line == w[0] && r.Start.Character > w[1]) {
			t.Errorf("symbol %q: range %v starts after its declaring identifier at %d:%d", sy.Name, r, w[0], w[1])
		}
		if r.Start.Line > r.End.Line || (r.Start.Line == r.End.Line && r.Start.Character > r.End.Character) {
			t.Errorf("symbol %q: range %v has start > end", sy.Name, r)
		}
	}
	if found != 2 {
		t.Fatalf("expected outline entries for tbl and local loc, got %d of 2: %+v", found, syms)
	}
}
