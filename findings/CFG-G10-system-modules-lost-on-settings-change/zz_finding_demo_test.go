package langserver

import (
	"context"
	"fmt"
	"io/ioutil"
	"luahelper-lsp/langserver/check/common"
	lsp "luahelper-lsp/langserver/protocol"
	"os"
	"path/filepath"
	"sort"
	"strings"
	"testing"

	"github.com/yinfei8/jrpc2"
	"github.com/yinfei8/jrpc2/handler"
)

func find2DemoAllOn() *InitializationOptions {
	return &InitializationOptions{
		Client: "vsc", LocalRun: true, AllEnable: true, CheckSyntax: true, CheckNoDefine: true,
		CheckAfterDefine: true, CheckLocalNoUse: true, CheckTableDuplicateKey: true, CheckReferNoFile: true,
		CheckAssignParamNum: true, CheckLocalDefineParamNum: true, CheckGotoLable: true, CheckFuncParam: true,
		CheckImportModuleVar: true, CheckIfNotVar: true, CheckFunctionDuplicateParam: true,
		CheckBinaryExpressionDuplicate: true, CheckErrorOrAlwaysTrue: true, CheckErrorAndAlwaysFalse: true,
		CheckNoUseAssign: true, CheckAnnotateType: true, CheckDuplicateIf: true, CheckSelfAssign: true,
		CheckFloatEq: true, CheckClassField: true, CheckConstAssign: true, CheckFuncParamType: true,
		CheckFuncReturnType: true,
	}
}

func find2DemoDiags(t *testing.T, files map[string]string, opts *InitializationOptions) []string {
	dir, err := ioutil.TempDir("", "finddemo")
	if err != nil {
		t.Fatal(err)
	}
	defer os.RemoveAll(dir)
	dir, _ = filepath.EvalSymlinks(dir)
	for n, c := range files {
		if err := ioutil.WriteFile(filepath.Join(dir, n), []byte(c), 0644); err != nil {
			t.Fatal(err)
		}
	}
	common.GlobalConfigDefautInit()
	common.GConfig.IntialGlobalVar()
	lspServer := CreateLspServer()
	lspServer.server = jrpc2.NewServer(handler.Map{}, &jrpc2.ServerOptions{AllowPush: false, Concurrency: 1})
	_, err = lspServer.Initialize(context.Background(), InitializeParams{
		InitializeParams: lsp.InitializeParams{
			InnerInitializeParams: lsp.InnerInitializeParams{RootPath: dir, RootURI: lsp.DocumentURI("file://" + dir)},
		},
		InitializationOptions: opts,
	})
	if err != nil {
		t.Fatal(err)
	}
	var out []string
	for strFile, errList := range lspServer.project.GetAllFileErrorInfo() {
		for _, e := range errList {
			out = append(out, fmt.Sprintf("%s %d@%d:%d %s", filepath.Base(strFile), e.ErrType, e.Loc.StartLine, e.Loc.StartColumn, e.ErrStr))
		}
	}
	sort.Strings(out)
	return out
}

func find2DemoWarnAllOn() WarnParams {
	return WarnParams{
		AllEnable: true, CheckSyntax: true, CheckNoDefine: true, CheckAfterDefine: true, CheckLocalNoUse: true,
		CheckTableDuplicateKey: true, CheckReferNoFile: true, CheckAssignParamNum: true, CheckLocalDefineParamNum: true,
		CheckGotoLable: true, CheckFuncParam: true, CheckImportModuleVar: true, CheckIfNotVar: true,
		CheckFunctionDuplicateParam: true, CheckBinaryExpressionDuplicate: true, CheckErrorOrAlwaysTrue: true,
		CheckErrorAndAlwaysFalse: true, CheckNoUseAssign: true, CheckAnnotateType: true, CheckDuplicateIf: true,
		CheckSelfAssign: true, CheckFloatEq: true, CheckClassField: true, CheckConstAssign: true,
		CheckFuncParamType: true, CheckFuncReturnType: true,
	}
}

// The same settings, once given at start-up and once again through workspace/didChangeConfiguration, must
// leave the same diagnostics (local-run mode: the built-in modules are ignored names).
func TestFind2DemoSettingsChangeKeepsBuiltins(t *testing.T) {
	dir, err := ioutil.TempDir("", "find2demo")
	if err != nil {
		t.Fatal(err)
	}
	defer os.RemoveAll(dir)
	dir, _ = filepath.EvalSymlinks(dir)
	if err := ioutil.WriteFile(filepath.Join(dir, "main.lua"), []byte("print(math.pi, string.format(\"%d\", 1))\nprint(nowhere)\n"), 0644); err != nil {
		t.Fatal(err)
	}
	common.GlobalConfigDefautInit()
	common.GConfig.IntialGlobalVar()
	s := CreateLspServer()
	s.server = jrpc2.NewServer(handler.Map{}, &jrpc2.ServerOptions{AllowPush: false, Concurrency: 1})
	ctx := context.Background()
	if _, err := s.Initialize(ctx, InitializeParams{
		InitializeParams: lsp.InitializeParams{
			InnerInitializeParams: lsp.InnerInitializeParams{RootPath: dir, RootURI: lsp.DocumentURI("file://" + dir)},
		},
		InitializationOptions: find2DemoAllOn(),
	}); err != nil {
		t.Fatal(err)
	}
	s.Initialized(ctx, InitializedParams{})
	snap := func() []string {
		var out []string
		for f, errs := range s.project.GetAllFileErrorInfo() {
			for _, e := range errs {
				out = append(out, fmt.Sprintf("%s %d@%d:%d %s", filepath.Base(f), e.ErrType, e.Loc.StartLine, e.Loc.StartColumn, e.ErrStr))
			}
		}
		sort.Strings(out)
		return out
	}
	before := snap()
	for i := 0; i < 2; i++ { // the first notification only echoes the start-up options
		var p ChangeConfigurationParams
		p.Settings.Luahelper.WarnParam = find2DemoWarnAllOn()
		if err := s.ChangeConfiguration(ctx, p); err != nil {
			t.Fatal(err)
		}
	}
	after := snap()
	t.Logf("before=%v\nafter=%v ignoreVar=%d", before, after, len(common.GConfig.IgnoreVarMap))
	if len(before) == 0 || !strings.Contains(strings.Join(before, ";"), "nowhere") {
		t.Fatalf("precondition: expected the undefined-variable diagnostic for nowhere at start-up, got %v", before)
	}
	if fmt.Sprint(before) != fmt.Sprint(after) {
		t.Errorf("same settings after workspace/didChangeConfiguration:\n start-up: %v\n after:    %v", before, after)
	}
}
