package langserver

import (
	"context"
	"fmt"
	"io/ioutil"
	lsp "luahelper-lsp/langserver/protocol"
	"os"
	"path/filepath"
	"testing"
)

// A global table G is defined in g.lua; a.lua and b.lua each add a member G.x without defining G. Which of the two
// assignments "go to definition" on G.x (asked from c.lua) leads to must be the same on every start of the server.
func TestFindDemoMemberOfForeignGlobalIsStable(t *testing.T) {
	root, err := ioutil.TempDir("", "finddemo")
	if err != nil {
		t.Fatal(err)
	}
	defer os.RemoveAll(root)
	root, _ = filepath.EvalSymlinks(root)
	cText := "print(G.x)\n"
	files := map[string]string{
		"g.lua": "G = {}\n",
		"a.lua": "G.x = 1\n",
		"b.lua": "G.x = 2\n",
		"c.lua": cText,
	}
	for name, text := range files {
		if err := ioutil.WriteFile(filepath.Join(root, name), []byte(text), 0644); err != nil {
			t.Fatal(err)
		}
	}
	answers := map[string]int{}
	for i := 0; i < 40; i++ {
		s := createLspTest(root, "file://"+root)
		ctx := context.Background()
		fileName := root + "/c.lua"
		s.TextDocumentDidOpen(ctx, lsp.DidOpenTextDocumentParams{TextDocument: lsp.TextDocumentItem{URI: lsp.DocumentURI(fileName), Text: cText}})
		locs, err2 := s.TextDocumentDefine(ctx, lsp.TextDocumentPositionParams{
			TextDocument: lsp.TextDocumentIdentifier{URI: lsp.DocumentURI(fileName)},
			Position:     lsp.Position{Line: 0, Character: 8},
		})
		if err2 != nil {
			t.Fatalf("define: %v", err2)
		}
		key := ""
		for _, l := range locs {
			key += fmt.Sprintf("%s:%d ", filepath.Base(string(l.URI)), l.Range.Start.Line)
		}
		answers[key]++
	}
	if len(answers) != 1 {
		t.Fatalf("definition of G.x differs from start to start: %v", answers)
	}
	t.Logf("answers: %v", answers)
}

func gxDemoWorkspace(t *testing.T, files map[string]string) string {
	dir, err := ioutil.TempDir("", "finddemo")
	if err != nil {
		t.Fatal(err)
	}
	dir, _ = filepath.EvalSymlinks(dir)
	for n, c := range files {
		if err := ioutil.WriteFile(filepath.Join(dir, n), []byte(c), 0644); err != nil {
			t.Fatal(err)
		}
	}
	return dir
}

func gxDemoDefine(srv *LspServer, file string, line, ch uint32) string {
	locs, _ := srv.TextDocumentDefine(context.Background(), lsp.TextDocumentPositionParams{
		TextDocument: lsp.TextDocumentIdentifier{URI: lsp.DocumentURI(file)},
		Position:     lsp.Position{Line: line, Character: ch},
	})
	out := ""
	for _, l := range locs {
		out += fmt.Sprintf("%s:%d ", filepath.Base(string(l.URI)), l.Range.Start.Line)
	}
	return out
}

func gxDemoDistinct(runs int, one func() string) []string {
	seen := map[string]int{}
	for i := 0; i < runs; i++ {
		seen[one()]++
	}
	var out []string
	for k, n := range seen {
		out = append(out, fmt.Sprintf("%q x%d", k, n))
	}
	return out
}

// Entry-file project (luahelper.json ProjectFiles): e.lua requires g, a and b; g.lua defines G, a.lua and b.lua each
// add G.x. The file that answers "go to definition" on G.x in the entry file must be the same on every start.
func TestFindDemoMemberOfForeignGlobalInProjectIsStable(t *testing.T) {
	files := map[string]string{
		"luahelper.json": `{"BaseDir":"./","ShowWarnFlag":1,"ProjectFiles":["e.lua"]}`,
		"e.lua":          "require(\"g\")\nrequire(\"a\")\nrequire(\"b\")\nprint(G.x)\n",
		"g.lua":          "G = {}\n",
		"a.lua":          "G.x = 1\n",
		"b.lua":          "G.x = 2\n",
	}
	dir := gxDemoWorkspace(t, files)
	defer os.RemoveAll(dir)
	got := gxDemoDistinct(60, func() string {
		srv := createLspTest(dir, "file://"+dir)
		file := dir + "/e.lua"
		srv.TextDocumentDidOpen(context.Background(), lsp.DidOpenTextDocumentParams{
			TextDocument: lsp.TextDocumentItem{URI: lsp.DocumentURI(file), Text: files["e.lua"]},
		})
		return gxDemoDefine(srv, file, 3, 8)
	})
	if len(got) != 1 {
		t.Errorf("same workspace, %d different answers: %v", len(got), got)
	}
	t.Logf("%v", got)
}
