package langserver

import (
	"context"
	"io/ioutil"
	"os"
	"path/filepath"
	"testing"

	lsp "luahelper-lsp/langserver/protocol"
)

// g.lua defines the global table GTab; a.lua adds GTab.fromA (a function) and GTab.valA. Every symbol answer must place
// these two members in a.lua, where they are declared: workspace/symbol used to report them in g.lua (at a line g.lua
// does not have), g.lua's outline listed them with ranges outside the document, a.lua's outline did not list them.
func TestFindDemoMembersOfForeignTableBelongToTheirFile(t *testing.T) {
	dir, _ := ioutil.TempDir("", "lhfinding")
	defer os.RemoveAll(dir)
	dir, _ = filepath.EvalSymlinks(dir)
	files := map[string]string{
		"g.lua": "GTab = {}\nfunction GTab.own() end\n",
		"a.lua": "\n\n\nfunction GTab.fromA(p) return p end\nGTab.valA = 1\n",
	}
	for n, c := range files {
		ioutil.WriteFile(filepath.Join(dir, n), []byte(c), 0o644)
	}
	s := createLspTest(dir, "file://"+dir)
	ctx := context.Background()
	for n, c := range files {
		s.TextDocumentDidOpen(ctx, lsp.DidOpenTextDocumentParams{TextDocument: lsp.TextDocumentItem{URI: lsp.DocumentURI(filepath.Join(dir, n)), Text: c}})
	}
	for _, q := range []string{"fromA", "valA"} {
		res, _ := s.WorkspaceSymbolRequest(ctx, lsp.WorkspaceSymbolParams{Query: q})
		ok := false
		for _, r := range res {
			if r.Name == "GTab."+q {
				if filepath.Base(string(r.Location.URI)) != "a.lua" {
					t.Errorf("workspace/symbol %q: located in %s, declared in a.lua", r.Name, filepath.Base(string(r.Location.URI)))
				}
				ok = true
			}
		}
		if !ok {
			t.Errorf("workspace/symbol %q: no entry", q)
		}
	}
	lines := map[string]uint32{"g.lua": 2, "a.lua": 5}
	seen := map[string]string{}
	for _, n := range []string{"g.lua", "a.lua"} {
		syms, _ := s.TextDocumentSymbol(ctx, lsp.DocumentSymbolParams{TextDocument: lsp.TextDocumentIdentifier{URI: lsp.DocumentURI(filepath.Join(dir, n))}})
		var walk func(ss []lsp.DocumentSymbol)
		walk = func(ss []lsp.DocumentSymbol) {
			for _, sy := range ss {
				seen[sy.Name] = n
				if sy.Range.End.Line >= lines[n] {
					t.Errorf("outline of %s: entry %q has range %d:%d-%d:%d outside the document (%d lines)", n, sy.Name,
						sy.Range.Start.Line, sy.Range.Start.Character, sy.Range.End.Line, sy.Range.End.Character, lines[n])
				}
				walk(sy.Children)
			}
		}
		walk(syms)
	}
	for name, file := range map[string]string{"GTab.fromA(p)": "a.lua", "GTab.valA": "a.lua", "GTab.own": "g.lua", "GTab": "g.lua"} {
		if seen[name] != file {
			t.Errorf("outline: entry %q listed in %q, declared in %s", name, seen[name], file)
		}
	}
}
