package annotateparser

import (
	"testing"

	"luahelper-lsp/langserver/check/annotation/annotateast"
	"luahelper-lsp/langserver/check/compiler/lexer"
)

func findingParseType(t *testing.T, typeStr string) annotateast.Type {
	info := &lexer.CommentInfo{LineVec: []lexer.CommentLine{{Str: "-@type " + typeStr, Line: 1, Col: 0}}}
	fragment, errs := ParseCommentFragment(info)
	if len(errs) != 0 || len(fragment.Stats) != 1 {
		t.Fatalf("%q: %d warnings, %d states", typeStr, len(errs), len(fragment.Stats))
	}
	st, ok := fragment.Stats[0].(*annotateast.AnnotateTypeState)
	if !ok || len(st.ListType) != 1 {
		t.Fatalf("%q: not one type", typeStr)
	}
	return st.ListType[0]
}

// the element type of an array is a primary: a union (or a function type) in that place is written in parentheses and
// must be printed in parentheses, or the printed text reads as another type (`string | number[]` is string or number[])
func TestFindingArrayOfUnionRoundTrip(t *testing.T) {
	for _, src := range []string{"(string|number)[]", "(string|number)[][]", "table<string, (A|B)[]>"} {
		first := findingParseType(t, src)
		printed := annotateast.TypeConvertStr(first)
		second := findingParseType(t, printed)
		again := annotateast.TypeConvertStr(second)
		if _, isArr := unwrapSingle(first).(*annotateast.ArrayType); src[0] == '(' && !isArr {
			t.Fatalf("%q is not understood as an array", src)
		}
		if src[0] == '(' {
			if _, isArr := unwrapSingle(second).(*annotateast.ArrayType); !isArr {
				t.Errorf("%q is printed as %q, which is read back as %T, not as an array", src, printed, unwrapSingle(second))
			}
		}
		if printed != again {
			t.Errorf("%q: printed %q, printed again after re-reading %q", src, printed, again)
		}
	}
}

func unwrapSingle(ty annotateast.Type) annotateast.Type {
	for {
		m, ok := ty.(*annotateast.MultiType)
		if !ok || len(m.TypeList) != 1 {
			return ty
		}
		ty = m.TypeList[0]
	}
}
