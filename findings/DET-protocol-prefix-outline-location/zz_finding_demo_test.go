package langserver

import (
	"context"
	"fmt"
	"io/ioutil"
	lsp "luahelper-lsp/langserver/protocol"
	"os"
	"path/filepath"
	"testing"
)

func TestFindingProtocolPrefixOutlineLocation(t *testing.T) {
	dir, _ := ioutil.TempDir("", "lhfinding")
	defer os.RemoveAll(dir)
	dir, _ = filepath.EvalSymlinks(dir)
	src := ""
	for i := 0; i < 12; i++ {
		src += fmt.Sprintf("function c2s.handler_%02d(a)\n  return a\nend\n\n", i)
	}
	ioutil.WriteFile(filepath.Join(dir, "luahelper.json"), []byte(`{"ProtocolVars": ["c2s"]}`), 0644)
	file := filepath.Join(dir, "a.lua")
	ioutil.WriteFile(file, []byte(src), 0644)
	seen := map[string]int{}
	for run := 0; run < 30; run++ {
		srv := createLspTest(dir, "file://"+dir)
		ctx := context.Background()
		srv.TextDocumentDidOpen(ctx, lsp.DidOpenTextDocumentParams{TextDocument: lsp.TextDocumentItem{URI: lsp.DocumentURI(file), Text: src}})
		items, err := srv.TextDocumentSymbol(ctx, lsp.DocumentSymbolParams{TextDocument: lsp.TextDocumentIdentifier{URI: lsp.DocumentURI(file)}})
		if err != nil {
			t.Fatal(err)
		}
		for _, it := range items {
			if it.Name == "c2s" {
				seen[fmt.Sprintf("%d:%d-%d:%d", it.Range.Start.Line, it.Range.Start.Character, it.Range.End.Line, it.Range.End.Character)]++
			}
		}
	}
	t.Logf("ranges of the c2s entry over 30 fresh servers: %v", seen)
	if len(seen) != 1 {
		t.Fatalf("outline entry of the protocol prefix differs between runs: %v", seen)
	}
}
