package langserver

import (
	"context"
	"fmt"
	"io/ioutil"
	"os"
	"path/filepath"
	"testing"

	lsp "luahelper-lsp/langserver/protocol"
)

// The control variables of a for loop are visible in the loop body only: a name in the loop's own header expressions
// (`for k, v in pairs(v) do`, `for i = i, n do`) refers to the OUTER variable of that name.
func TestFindDemoLoopVariableNotVisibleInHeader(t *testing.T) {
	dir, _ := ioutil.TempDir("", "finddemo")
	defer os.RemoveAll(dir)
	dir, _ = filepath.EvalSymlinks(dir)
	src := "local v = {1, 2}\n" + // line 0: outer v at 0:6
		"for k, v in pairs(v) do print(k, v) end\n" + // line 1: loop v at 1:7, header use at 1:18, body use at 1:33
		"local i, n = 3, 9\n" + // line 2: outer i at 2:6
		"for i = i, n do print(i) end\n" // line 3: loop i at 3:4, header use at 3:8, body use at 3:22
	file := filepath.Join(dir, "a.lua")
	ioutil.WriteFile(file, []byte(src), 0o644)
	s := createLspTest(dir, "file://"+dir)
	ctx := context.Background()
	uri := lsp.DocumentURI(file)
	s.TextDocumentDidOpen(ctx, lsp.DidOpenTextDocumentParams{TextDocument: lsp.TextDocumentItem{URI: uri, Text: src}})
	def := func(line, ch uint32) string {
		locs, _ := s.TextDocumentDefine(ctx, lsp.TextDocumentPositionParams{TextDocument: lsp.TextDocumentIdentifier{URI: uri}, Position: lsp.Position{Line: line, Character: ch}})
		out := ""
		for _, l := range locs {
			out += fmt.Sprintf("%d:%d ", l.Range.Start.Line, l.Range.Start.Character)
		}
		return out
	}
	for _, tc := range []struct {
		what     string
		line, ch uint32
		want     string
	}{
		{"v inside pairs(v) (header)", 1, 18, "0:6 "},
		{"v in the loop body", 1, 33, "1:7 "},
		{"loop variable v itself", 1, 7, "1:7 "},
		{"i after `=` (header)", 3, 8, "2:6 "},
		{"i in the loop body", 3, 22, "3:4 "},
	} {
		if got := def(tc.line, tc.ch); got != tc.want {
			t.Errorf("%s: definition at %d:%d = %q, want %q", tc.what, tc.line, tc.ch, got, tc.want)
		}
	}
}
