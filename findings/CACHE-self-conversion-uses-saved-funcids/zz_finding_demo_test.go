package langserver

import (
	"context"
	"fmt"
	"io/ioutil"
	"os"
	"path/filepath"
	"sort"
	"strings"
	"testing"

	lsp "luahelper-lsp/langserver/protocol"
)

// findDemoWordOccurrences returns "line:startCol-endCol" (0-based, end exclusive) for every
// whole-word occurrence of word in src.
func findDemoWordOccurrences(src, word string) []string {
	isID := func(c byte) bool {
		return c == '_' || (c >= 'a' && c <= 'z') || (c >= 'A' && c <= 'Z') || (c >= '0' && c <= '9')
	}
	var out []string
	for li, l := range strings.Split(src, "\n") {
		for ci := 0; ci+len(word) <= len(l); ci++ {
			if l[ci:ci+len(word)] != word {
				continue
			}
			if ci > 0 && isID(l[ci-1]) {
				continue
			}
			if ci+len(word) < len(l) && isID(l[ci+len(word)]) {
				continue
			}
			out = append(out, fmt.Sprintf("%d:%d-%d", li, ci, ci+len(word)))
		}
	}
	sort.Strings(out)
	return out
}

func findDemoRefs(t *testing.T, srv *LspServer, file string, line, ch uint32) []string {
	res, err := srv.TextDocumentReferences(context.Background(), lsp.ReferenceParams{
		TextDocumentPositionParams: lsp.TextDocumentPositionParams{
			TextDocument: lsp.TextDocumentIdentifier{URI: lsp.DocumentURI(file)},
			Position:     lsp.Position{Line: line, Character: ch},
		},
	})
	if err != nil {
		t.Fatalf("references error: %v", err)
	}
	var out []string
	for _, l := range res {
		if !strings.HasSuffix(string(l.URI), "/main.lua") {
			t.Fatalf("reference in unexpected file %s", l.URI)
		}
		out = append(out, fmt.Sprintf("%d:%d-%d", l.Range.Start.Line, l.Range.Start.Character, l.Range.End.Character))
	}
	sort.Strings(out)
	return out
}

// References of a member written through `self` inside a colon method must not depend on whether
// the buffer is saved: the same text, once as an unsaved edit and once saved and re-opened by a fresh
// server, must give the same answer.
func TestFindDemoSelfMemberAfterUnsavedEdit(t *testing.T) {
	src := `local A = {}
function A:f()
  self.hp = 1
  print(self.hp)
end
local B = {}
function B:g()
  self.hp = 2
  print(self.hp)
end
print(A.hp)
return A, B
`
	edited := "local function pad() end\npad()\n" + src

	run := func(unsaved bool) map[string][]string {
		dir, err := ioutil.TempDir("", "findcacheq")
		if err != nil {
			t.Fatal(err)
		}
		defer os.RemoveAll(dir)
		dir, _ = filepath.EvalSymlinks(dir)
		file := dir + "/main.lua"
		first := edited
		if unsaved {
			first = src
		}
		if err := ioutil.WriteFile(file, []byte(first), 0644); err != nil {
			t.Fatal(err)
		}
		srv := createLspTest(dir, "file://"+dir)
		ctx := context.Background()
		if err := srv.TextDocumentDidOpen(ctx, lsp.DidOpenTextDocumentParams{
			TextDocument: lsp.TextDocumentItem{URI: lsp.DocumentURI(file), Text: first},
		}); err != nil {
			t.Fatal(err)
		}
		if unsaved {
			if err := srv.TextDocumentDidChange(ctx, lsp.DidChangeTextDocumentParams{
				TextDocument:   lsp.VersionedTextDocumentIdentifier{TextDocumentIdentifier: lsp.TextDocumentIdentifier{URI: lsp.DocumentURI(file)}},
				ContentChanges: []lsp.TextDocumentContentChangeEvent{{Text: edited}},
			}); err != nil {
				t.Fatal(err)
			}
		}
		out := map[string][]string{}
		// self.hp in A:f (line 4), self.hp in B:g (line 9), A.hp (line 12) of the edited text
		for _, pos := range [][2]uint32{{4, 7}, {9, 7}, {12, 8}} {
			out[fmt.Sprintf("%d:%d", pos[0], pos[1])] = findDemoRefs(t, srv, file, pos[0], pos[1])
		}
		return out
	}
	saved := run(false)
	unsaved := run(true)
	for k, w := range saved {
		if strings.Join(unsaved[k], " ") != strings.Join(w, " ") {
			t.Errorf("references at %s: unsaved buffer gives %v, the same text saved gives %v", k, unsaved[k], w)
		}
	}
	t.Logf("saved: %v", saved)
}

// Same requirement for a global defined and used in the edited file, a label/goto pair and a
// global function: the unsaved buffer and the same text saved must give the same references.
func TestFindDemoGlobalAfterUnsavedEdit(t *testing.T) {
	src := `g_total = 0
function g_add(n)
  g_total = g_total + n
  return g_total
end
local t = {}
function t.run()
  g_add(1)
  print(g_total)
end
g_add(2)
return t
`
	edited := "local function pad() end\npad()\n" + src

	run := func(unsaved bool) map[string][]string {
		dir, err := ioutil.TempDir("", "findcacheq")
		if err != nil {
			t.Fatal(err)
		}
		defer os.RemoveAll(dir)
		dir, _ = filepath.EvalSymlinks(dir)
		file := dir + "/main.lua"
		first := edited
		if unsaved {
			first = src
		}
		if err := ioutil.WriteFile(file, []byte(first), 0644); err != nil {
			t.Fatal(err)
		}
		srv := createLspTest(dir, "file://"+dir)
		ctx := context.Background()
		if err := srv.TextDocumentDidOpen(ctx, lsp.DidOpenTextDocumentParams{
			TextDocument: lsp.TextDocumentItem{URI: lsp.DocumentURI(file), Text: first},
		}); err != nil {
			t.Fatal(err)
		}
		if unsaved {
			if err := srv.TextDocumentDidChange(ctx, lsp.DidChangeTextDocumentParams{
				TextDocument:   lsp.VersionedTextDocumentIdentifier{TextDocumentIdentifier: lsp.TextDocumentIdentifier{URI: lsp.DocumentURI(file)}},
				ContentChanges: []lsp.TextDocumentContentChangeEvent{{Text: edited}},
			}); err != nil {
				t.Fatal(err)
			}
		}
		out := map[string][]string{}
		for _, pos := range [][2]uint32{{2, 1}, {4, 3}, {10, 9}, {3, 10}, {9, 3}, {12, 1}} {
			out[fmt.Sprintf("%d:%d", pos[0], pos[1])] = findDemoRefs(t, srv, file, pos[0], pos[1])
		}
		return out
	}
	saved := run(false)
	unsaved := run(true)
	for k, w := range saved {
		if strings.Join(unsaved[k], " ") != strings.Join(w, " ") {
			t.Errorf("references at %s: unsaved buffer gives %v, the same text saved gives %v", k, unsaved[k], w)
		}
	}
	t.Logf("saved: %v", saved)
}
