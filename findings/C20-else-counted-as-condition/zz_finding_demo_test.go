package langserver

import (
	"context"
	"fmt"
	"strings"
	"io/ioutil"
	"luahelper-lsp/langserver/check/common"
	lsp "luahelper-lsp/langserver/protocol"
	"os"
	"path/filepath"
	"sort"
	"testing"

	"github.com/yinfei8/jrpc2"
	"github.com/yinfei8/jrpc2/handler"
)

// findDemoDiags runs the whole project check over one lua file with every check enabled and
// returns "type@startLine:startCol-endLine:endCol" for every diagnostic of the file, sorted.
func findDemoDiags(t *testing.T, src string) []string {
	dir, err := ioutil.TempDir("", "finddemo")
	if err != nil {
		t.Fatal(err)
	}
	defer os.RemoveAll(dir)
	dir, _ = filepath.EvalSymlinks(dir)
	fileName := filepath.Join(dir, "demo.lua")
	if err := ioutil.WriteFile(fileName, []byte(src), 0644); err != nil {
		t.Fatal(err)
	}

	common.GlobalConfigDefautInit()
	common.GConfig.IntialGlobalVar()
	lspServer := CreateLspServer()
	lspServer.server = jrpc2.NewServer(handler.Map{}, &jrpc2.ServerOptions{AllowPush: false, Concurrency: 1})
	opts := &InitializationOptions{
		Client: "vsc", LocalRun: true, AllEnable: true, CheckSyntax: true, CheckNoDefine: true,
		CheckAfterDefine: true, CheckLocalNoUse: true, CheckTableDuplicateKey: true, CheckReferNoFile: true,
		CheckAssignParamNum: true, CheckLocalDefineParamNum: true, CheckGotoLable: true, CheckFuncParam: true,
		CheckImportModuleVar: true, CheckIfNotVar: true, CheckFunctionDuplicateParam: true,
		CheckBinaryExpressionDuplicate: true, CheckErrorOrAlwaysTrue: true, CheckErrorAndAlwaysFalse: true,
		CheckNoUseAssign: true, CheckAnnotateType: true, CheckDuplicateIf: true, CheckSelfAssign: true,
		CheckFloatEq: true, CheckClassField: true, CheckConstAssign: true, CheckFuncParamType: true,
		CheckFuncReturnType: true,
	}
	_, err = lspServer.Initialize(context.Background(), InitializeParams{
		InitializeParams: lsp.InitializeParams{
			InnerInitializeParams: lsp.InnerInitializeParams{
				RootPath: dir,
				RootURI:  lsp.DocumentURI("file://" + dir),
			},
		},
		InitializationOptions: opts,
	})
	if err != nil {
		t.Fatal(err)
	}

	var out []string
	for strFile, errList := range lspServer.project.GetAllFileErrorInfo() {
		if filepath.Base(strFile) != "demo.lua" {
			continue
		}
		for _, e := range errList {
			out = append(out, fmt.Sprintf("%d@%d:%d-%d:%d", e.ErrType, e.Loc.StartLine, e.Loc.StartColumn,
				e.Loc.EndLine, e.Loc.EndColumn))
		}
	}
	sort.Strings(out)
	return out
}

// Two instances of the same pattern written on one source line must both be reported.
// `else` is not a condition: an if statement whose first condition is the literal `true` and that has an else branch
// contains no repeated condition (the parser stores the else branch as a trailing `true` condition, and the
// repeated-condition check compared it with the user's conditions).
func TestFindDemoElseIsNotACondition(t *testing.T) {
	src := "local x = 1\n" +
		"if true then print(1) else print(2) end\n" + // line 2: nothing to report
		"if x == 1 then print(1) elseif x == 1 then print(2) else print(3) end\n" + // line 3: one type 19 at the elseif
		"if true then print(1) elseif true then print(2) end\n" + // line 4: one type 19 (both written by the user)
		"if x == 2 then print(1) else print(2) end\n" + // line 5: nothing
		"print(x)\n"
	got := findDemoDiags(t, src)
	var got19 []string
	for _, d := range got {
		if strings.HasPrefix(d, "19@") {
			got19 = append(got19, d)
		}
	}
	want := []string{"19@3:31-3:37", "19@4:29-4:33"}
	if fmt.Sprint(got19) != fmt.Sprint(want) {
		t.Fatalf("repeated-condition diagnostics\n got: %v\nwant: %v", got19, want)
	}
}
