package langserver

import (
	"context"
	"io/ioutil"
	"os"
	"path/filepath"
	"testing"

	lsp "luahelper-lsp/langserver/protocol"
)

// KNOWN FINDING (not repaired). History: didOpen of `local s = "😀"` (U+1F600, two UTF-16 code
// units), then an incremental didChange appending ` .. "x"` at the end of that line, addressed the
// way the LSP specifies (character = UTF-16 length of the line = 14). The server counts code points
// (13), rejects the position ("beyond line boundary"), logs, and returns nil: the cached copy stays
// the old text, no error reaches the client, and every later answer is computed on stale text (C02:
// "a change the server cannot apply must not leave it silently working on stale text").
func TestFindingRejectedEditLeavesStaleTextSilently(t *testing.T) {
	dir, _ := ioutil.TempDir("", "lhfinding")
	defer os.RemoveAll(dir)
	dir, _ = filepath.EvalSymlinks(dir)
	src := "local s = \"\U0001F600\"\n"
	file := filepath.Join(dir, "a.lua")
	ioutil.WriteFile(file, []byte(src), 0o644)
	s := createLspTest(dir, "file://"+dir)
	ctx := context.Background()
	uri := lsp.DocumentURI(file)
	s.TextDocumentDidOpen(ctx, lsp.DidOpenTextDocumentParams{TextDocument: lsp.TextDocumentItem{URI: uri, Text: src}})
	// client view of line 0: `local s = "😀"` = 11 + 2 (surrogate pair) + 1 = 14 UTF-16 units
	pos := lsp.Position{Line: 0, Character: 14}
	err := s.TextDocumentDidChange(ctx, lsp.DidChangeTextDocumentParams{
		TextDocument:   lsp.VersionedTextDocumentIdentifier{TextDocumentIdentifier: lsp.TextDocumentIdentifier{URI: uri}},
		ContentChanges: []lsp.TextDocumentContentChangeEvent{{Range: &lsp.Range{Start: pos, End: pos}, Text: " .. \"x\""}}})
	want := "local s = \"\U0001F600\" .. \"x\"\n"
	got, _ := s.getFileCache().GetFileContent(file)
	if string(got) != want && err == nil {
		t.Errorf("client text is %q, server still analyses %q, and the change was dropped without any error", want, string(got))
	}
}
