package langserver

import (
	"io/ioutil"
	"os"
	"path/filepath"
	"testing"
)

// Cyclic inheritance `---@class CA : CB` / `---@class CB : CA` made GetFieldTypeOfClass and
// isFieldOfClass follow ParentNameList by name for ever (class-field check, type 22 enabled through
// luahelper.json OpenErrorTypes): stack overflow during start-up analysis (C15, C01).
func TestFindingCyclicClassInheritanceDoesNotOverflow(t *testing.T) {
	dir, _ := ioutil.TempDir("", "lhfinding")
	defer os.RemoveAll(dir)
	dir, _ = filepath.EvalSymlinks(dir)
	ioutil.WriteFile(filepath.Join(dir, "luahelper.json"), []byte(`{"ShowWarnFlag":1,"OpenErrorTypes":[22,24,25,26,27]}`), 0o644)
	src := "---@class CA : CB\n---@field x number\n\n---@class CB : CA\n---@field y number\n\n---@type CA\nlocal v = {}\nprint(v.x, v.q)\nlocal w = v.q\n"
	ioutil.WriteFile(filepath.Join(dir, "a.lua"), []byte(src), 0o644)
	createLspTest(dir, "file://"+dir) // must return
}
