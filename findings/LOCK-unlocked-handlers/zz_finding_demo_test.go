package langserver

import (
	"context"
	"io/ioutil"
	"os"
	"path/filepath"
	"sync"
	"testing"

	"luahelper-lsp/langserver/check/common"
	"luahelper-lsp/langserver/pathpre"
	lsp "luahelper-lsp/langserver/protocol"
)

// Run with -race. Schedule the dispatcher can produce (Concurrency 4, requests unordered,
// notifications ordered only among themselves): hover / documentSymbol / references /
// workspace-symbol / rename / completionItem-resolve requests in flight while didChange and didSave
// notifications for an open file are handled by another worker. The nine request handlers took no
// lock, so they read the document cache and the analysis maps while the (locked) notification
// handlers wrote them: unsynchronised access (C10), in production a fatal "concurrent map read and
// map write".
func TestFindingQueriesRaceWithEdits(t *testing.T) {
	dir, _ := ioutil.TempDir("", "lhfinding")
	defer os.RemoveAll(dir)
	dir, _ = filepath.EvalSymlinks(dir)
	text := "local aaa = 1\nlocal bbb = 2\nfunction gfun(x) return x end\nprint(aaa, bbb, gfun(1))\n"
	file := filepath.Join(dir, "a.lua")
	ioutil.WriteFile(file, []byte(text), 0o644)
	ioutil.WriteFile(filepath.Join(dir, "b.lua"), []byte("print(gfun(2))\n"), 0o644)
	ctx := context.Background()
	s := findingRaceServer(ctx, t, dir)
	uri := lsp.DocumentURI(file)
	id := lsp.TextDocumentIdentifier{URI: uri}
	s.TextDocumentDidOpen(ctx, lsp.DidOpenTextDocumentParams{TextDocument: lsp.TextDocumentItem{URI: uri, Text: text}})

	var wg sync.WaitGroup
	stop := make(chan struct{})
	// the editing client: notifications, strictly one after the other
	wg.Add(1)
	go func() {
		defer wg.Done()
		for i := 0; i < 60; i++ {
			t2 := text
			if i%2 == 0 {
				t2 = text + "print(bbb)\n"
			}
			s.TextDocumentDidChange(ctx, lsp.DidChangeTextDocumentParams{
				TextDocument:   lsp.VersionedTextDocumentIdentifier{TextDocumentIdentifier: id},
				ContentChanges: []lsp.TextDocumentContentChangeEvent{{Text: t2}}})
			s.TextDocumentDidSave(ctx, lsp.DidSaveTextDocumentParams{TextDocument: id, Text: &t2})
		}
		close(stop)
	}()
	// queries in flight
	for g := 0; g < 3; g++ {
		wg.Add(1)
		go func() {
			defer wg.Done()
			pp := lsp.TextDocumentPositionParams{TextDocument: id, Position: lsp.Position{Line: 3, Character: 7}}
			for {
				select {
				case <-stop:
					return
				default:
				}
				s.TextDocumentHover(ctx, pp)
				s.TextDocumentSymbol(ctx, lsp.DocumentSymbolParams{TextDocument: id})
				s.TextDocumentReferences(ctx, lsp.ReferenceParams{TextDocumentPositionParams: pp, Context: lsp.ReferenceContext{IncludeDeclaration: true}})
				s.WorkspaceSymbolRequest(ctx, lsp.WorkspaceSymbolParams{Query: "gfun"})
				s.TextDocumentRename(ctx, lsp.RenameParams{TextDocument: id, Position: pp.Position, NewName: "zzz"})
			}
		}()
	}
	wg.Wait()
}

// same construction as Initialize, minus the telemetry goroutine (irrelevant here, noisy under -race)
func findingRaceServer(ctx context.Context, t *testing.T, root string) *LspServer {
	common.GlobalConfigDefautInit()
	common.GConfig.IntialGlobalVar()
	CreateServer()
	l := lspServer
	rootURI := "file://" + root
	pathpre.InitialRootURIAndPath(rootURI, root)
	dirManager := common.GConfig.GetDirManager()
	dirManager.SetVSRootDir(pathpre.VscodeURIToString(rootURI))
	opts := getDefaultIntialOptions()
	dirManager.SetClientPluginPath(opts.PluginPath)
	if err := common.GConfig.ReadConfig(dirManager.GetVsRootDir(), "luahelper.json", getCheckFlagList(opts), opts.IgnoreFileOrDir, opts.IgnoreFileOrDirError); err != nil {
		t.Fatal(err)
	}
	common.GConfig.InsertIngoreSystemModule()
	common.GConfig.InsertIngoreSystemAnnotateType()
	dirManager.InitMainDir()
	dirManager.InitOtherDir()
	if err := l.handleChange(ctx); err != nil {
		t.Fatal(err)
	}
	return l
}
