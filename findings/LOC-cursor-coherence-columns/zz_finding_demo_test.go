package parser

import (
	"strings"
	"testing"

	"luahelper-lsp/langserver/check/compiler/ast"
)

// Every local declared on the line must be located where its name is written, also when a short string
// with escape sequences, or an illegal (non-ASCII) name, precedes it on the same line.
func TestFindDemoColumnsAfterEscapesAndIllegalNames(t *testing.T) {
	cases := []string{
		"local s = \"a\\tb\"; local target = 1",
		"local s = 'x\\\\y\\n'; local target = 1",
		"local s = \"\\65\\66\"; local target = 1",
		"local s = \"plain\"; local target = 1", // control
		"中文名 local target = 1",
	}
	for _, src := range cases {
		block, _, _ := CreateParser([]byte(src), "demo.lua").BeginAnalyze()
		want := len([]rune(src[:strings.Index(src, "target")]))
		found := false
		for _, st := range block.Stats {
			if ld, ok := st.(*ast.LocalVarDeclStat); ok {
				for i, n := range ld.NameList {
					if n == "target" {
						found = true
						if got := ld.VarLocList[i].StartColumn; got != want {
							t.Errorf("%q: local target reported at column %d, written at column %d", src, got, want)
						}
					}
				}
			}
		}
		if !found {
			t.Errorf("%q: declaration of target not found in the AST", src)
		}
	}
}

// The same after a long string / long comment on the line, with and without line breaks inside it.
func TestFindDemoColumnsAfterLongBrackets(t *testing.T) {
	cases := []string{
		"local s = [[abc]]; local target = 1",
		"local s = [==[a]]b]==]; local target = 1",
		"--[[ note ]] local target = 1",
		"local s = [[ab\ncd]]; local target = 1",
		"--[[ a\n b ]] local target = 1",
	}
	for _, src := range cases {
		block, _, _ := CreateParser([]byte(src), "demo.lua").BeginAnalyze()
		lastLine := src[strings.LastIndex(src, "\n")+1:]
		want := strings.Index(lastLine, "target")
		found := false
		for _, st := range block.Stats {
			if ld, ok := st.(*ast.LocalVarDeclStat); ok {
				for i, n := range ld.NameList {
					if n == "target" {
						found = true
						if got := ld.VarLocList[i].StartColumn; got != want {
							t.Errorf("%q: local target reported at column %d, written at column %d", src, got, want)
						}
					}
				}
			}
		}
		if !found {
			t.Errorf("%q: declaration of target not found in the AST", src)
		}
	}
}

// ... and when the long string / long comment contains non-ASCII text (columns count characters).
func TestFindDemoColumnsAfterNonASCIILongBrackets(t *testing.T) {
	cases := []string{
		"local s = [[中文]]; local target = 1",
		"--[[ 说明 ]] local target = 1",
		"local s = [[ab\n中文]]; local target = 1",
		"local s = \"中文\"; local target = 1", // control: short strings count characters
	}
	for _, src := range cases {
		block, _, _ := CreateParser([]byte(src), "demo.lua").BeginAnalyze()
		lastLine := src[strings.LastIndex(src, "\n")+1:]
		want := len([]rune(lastLine[:strings.Index(lastLine, "target")]))
		found := false
		for _, st := range block.Stats {
			if ld, ok := st.(*ast.LocalVarDeclStat); ok {
				for i, n := range ld.NameList {
					if n == "target" {
						found = true
						if got := ld.VarLocList[i].StartColumn; got != want {
							t.Errorf("%q: local target reported at column %d, written at column %d", src, got, want)
						}
					}
				}
			}
		}
		if !found {
			t.Errorf("%q: declaration of target not found in the AST", src)
		}
	}
}
