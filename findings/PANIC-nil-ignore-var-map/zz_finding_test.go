package langserver

import (
	"context"
	"os"
	"path/filepath"
	"testing"

	"luahelper-lsp/langserver/check/common"
	lsp "luahelper-lsp/langserver/protocol"

	"github.com/yinfei8/jrpc2"
	"github.com/yinfei8/jrpc2/handler"
)

// A client that runs the server locally (LocalRun) with the master switch of the diagnostics off (AllEnable false):
// handleNotJSONCheckFlag returns before it creates GlobalConfig.IgnoreVarMap, and InsertIngoreSystemModule then writes
// into the nil map — initialize panics and the server is gone before it answered its first request.
func TestFindingInitializeMasterSwitchOffLocalRun(t *testing.T) {
	dir := t.TempDir()
	if err := os.WriteFile(filepath.Join(dir, "main.lua"), []byte("local a = 1\nprint(a)\n"), 0o644); err != nil {
		t.Fatal(err)
	}
	common.GlobalConfigDefautInit()
	common.GConfig.IntialGlobalVar()
	lspServer := CreateLspServer()
	lspServer.server = jrpc2.NewServer(handler.Map{}, &jrpc2.ServerOptions{AllowPush: false, Concurrency: 1})
	params := InitializeParams{
		InitializeParams: lsp.InitializeParams{
			InnerInitializeParams: lsp.InnerInitializeParams{
				RootPath: dir,
				RootURI:  lsp.DocumentURI("file://" + filepath.ToSlash(dir)),
			},
		},
		InitializationOptions: &InitializationOptions{
			LocalRun:  true,
			AllEnable: false,
		},
	}
	defer func() {
		if r := recover(); r != nil {
			t.Fatalf("initialize with LocalRun and the master switch off panicked: %v", r)
		}
	}()
	if _, err := lspServer.Initialize(context.Background(), params); err != nil {
		t.Fatalf("initialize failed: %v", err)
	}
}
