package langserver

import (
	"context"
	"io/ioutil"
	"os"
	"path/filepath"
	"sort"
	"strings"
	"testing"

	lsp "luahelper-lsp/langserver/protocol"
)

// Every edit returned by rename must cover an identifier spelled with the OLD name.
func TestFind5DemoRenameOnlyTouchesOldName(t *testing.T) {
	dir, err := ioutil.TempDir("", "find5demo")
	if err != nil {
		t.Fatal(err)
	}
	defer os.RemoveAll(dir)
	dir, _ = filepath.EvalSymlinks(dir)
	src := "local tt = {}\n" +
		"function tt:m()\n" +
		"  self.count = 1\n" +
		"  return self\n" +
		"end\n" +
		"print(tt)\n"
	file := dir + "/main.lua"
	if err := ioutil.WriteFile(file, []byte(src), 0644); err != nil {
		t.Fatal(err)
	}
	srv := createLspTest(dir, "file://"+dir)
	ctx := context.Background()
	srv.TextDocumentDidOpen(ctx, lsp.DidOpenTextDocumentParams{TextDocument: lsp.TextDocumentItem{URI: lsp.DocumentURI(file), Text: src}})
	edit, err := srv.TextDocumentRename(ctx, lsp.RenameParams{
		TextDocument: lsp.TextDocumentIdentifier{URI: lsp.DocumentURI(file)},
		Position:     lsp.Position{Line: 0, Character: 7},
		NewName:      "renamed",
	})
	if err != nil {
		t.Fatal(err)
	}
	lines := strings.Split(src, "\n")
	var bad []string
	n := 0
	for _, edits := range edit.Changes {
		for _, e := range edits {
			n++
			l := lines[e.Range.Start.Line]
			text := l[e.Range.Start.Character:e.Range.End.Character]
			if text != "tt" {
				bad = append(bad, text)
			}
		}
	}
	sort.Strings(bad)
	if n == 0 {
		t.Fatalf("no edits returned")
	}
	if len(bad) > 0 {
		t.Errorf("rename of tt also rewrites tokens spelled %v", bad)
	}
}
