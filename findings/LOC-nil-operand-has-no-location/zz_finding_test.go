package common

import (
	"testing"

	"luahelper-lsp/langserver/check/compiler/ast"
	"luahelper-lsp/langserver/check/compiler/lexer"
)

// GetExpLoc answers the zero location for a `nil` expression although the node carries one: the operator checks that
// report only when both operands have a location (`nil or true`, `nil and false`) silently drop the finding.
func TestFindingNilExpHasLocation(t *testing.T) {
	loc := lexer.Location{StartLine: 3, StartColumn: 10, EndLine: 3, EndColumn: 13}
	got := GetExpLoc(&ast.NilExp{Loc: loc})
	if got != loc {
		t.Fatalf("GetExpLoc(nil expression at 3:10-3:13) = %+v", got)
	}
}
