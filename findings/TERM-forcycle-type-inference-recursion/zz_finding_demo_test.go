package langserver

import (
	"context"
	"io/ioutil"
	"os"
	"path/filepath"
	"testing"

	lsp "luahelper-lsp/langserver/protocol"
)

// KNOWN FINDING (not repaired): the type of a for-in loop variable is inferred from the loop
// expression (getForCycleAnnotateType -> astConvertToAnnotateType), which starts a NEW visited list
// and traces the expression's symbols; if the expression's variable is in turn assigned from the
// loop variable, the trace comes back to the same loop variable and recurses for ever:
//     for _, x in pairs(y) do y = x end
// Hover on `x` overflows the stack and kills the server (C01). Found by TERM/T1 (guard-reset edge).
func TestFindingForLoopVariableFeedsItsOwnIterator(t *testing.T) {
	dir, _ := ioutil.TempDir("", "lhfinding")
	defer os.RemoveAll(dir)
	dir, _ = filepath.EvalSymlinks(dir)
	src := "for _, x in pairs(y) do\n  y = x\n  print(x.a)\nend\nprint(y.b)\n"
	file := filepath.Join(dir, "a.lua")
	ioutil.WriteFile(file, []byte(src), 0o644)
	s := createLspTest(dir, "file://"+dir)
	ctx := context.Background()
	uri := lsp.DocumentURI(file)
	s.TextDocumentDidOpen(ctx, lsp.DidOpenTextDocumentParams{TextDocument: lsp.TextDocumentItem{URI: uri, Text: src}})
	s.TextDocumentHover(ctx, lsp.TextDocumentPositionParams{TextDocument: lsp.TextDocumentIdentifier{URI: uri}, Position: lsp.Position{Line: 2, Character: 8}})
}
