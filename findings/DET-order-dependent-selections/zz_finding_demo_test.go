package langserver

import (
	"context"
	"fmt"
	"io/ioutil"
	"os"
	"path/filepath"
	"sort"
	"strings"
	"testing"

	lsp "luahelper-lsp/langserver/protocol"
)

func detDemoWorkspace(t *testing.T, files map[string]string) string {
	dir, err := ioutil.TempDir("", "finddet")
	if err != nil {
		t.Fatal(err)
	}
	dir, _ = filepath.EvalSymlinks(dir)
	for n, c := range files {
		p := dir + "/" + n
		os.MkdirAll(filepath.Dir(p), 0755)
		if err := ioutil.WriteFile(p, []byte(c), 0644); err != nil {
			t.Fatal(err)
		}
	}
	return dir
}

func detDemoDefine(srv *LspServer, file string, line, ch uint32) string {
	locs, _ := srv.TextDocumentDefine(context.Background(), lsp.TextDocumentPositionParams{
		TextDocument: lsp.TextDocumentIdentifier{URI: lsp.DocumentURI(file)},
		Position:     lsp.Position{Line: line, Character: ch},
	})
	var out []string
	for _, l := range locs {
		u := string(l.URI)
		out = append(out, fmt.Sprintf("%s:%d:%d", u[strings.LastIndex(u, "/finddet")+1:], l.Range.Start.Line, l.Range.Start.Character))
	}
	sort.Strings(out)
	return strings.Join(out, " ")
}

func detDemoDistinct(t *testing.T, runs int, one func() string) []string {
	seen := map[string]int{}
	for i := 0; i < runs; i++ {
		seen[one()]++
	}
	var out []string
	for k, n := range seen {
		out = append(out, fmt.Sprintf("%q x%d", k, n))
	}
	sort.Strings(out)
	return out
}

// A class declared in two files: which declaration answers "go to definition" on a member reached
// through the class must not depend on hash-map iteration order.
func TestFindDemoDuplicateClassOrder(t *testing.T) {
	files := map[string]string{
		"a.lua":    "---@class Dup\n---@field hp number\nlocal A = {}\nreturn A\n",
		"b.lua":    "---@class Dup\n---@field hp string\nlocal B = {}\nreturn B\n",
		"main.lua": "---@type Dup\nlocal v = nil\nprint(v.hp)\n",
	}
	dir := detDemoWorkspace(t, files)
	defer os.RemoveAll(dir)
	got := detDemoDistinct(t, 40, func() string {
		srv := createLspTest(dir, "file://"+dir)
		file := dir + "/main.lua"
		srv.TextDocumentDidOpen(context.Background(), lsp.DidOpenTextDocumentParams{
			TextDocument: lsp.TextDocumentItem{URI: lsp.DocumentURI(file), Text: files["main.lua"]},
		})
		return detDemoDefine(srv, file, 2, 9) + " | " + detDemoDefine(srv, file, 0, 10)
	})
	if len(got) != 1 {
		t.Errorf("same workspace, %d different answers: %v", len(got), got)
	}
}

// require("util") with two equally good candidates (a/util.lua, b/util.lua): the file the analysis
// binds the module to must not depend on hash-map iteration order.
func TestFindDemoRequireTieOrder(t *testing.T) {
	files := map[string]string{
		"a/util.lua":  "local M = {}\nfunction M.fa() end\nreturn M\n",
		"b/util.lua":  "local M = {}\nfunction M.fb() end\nreturn M\n",
		"c/main.lua":  "local u = require(\"util\")\nu.fa()\nu.fb()\n",
	}
	dir := detDemoWorkspace(t, files)
	defer os.RemoveAll(dir)
	got := detDemoDistinct(t, 40, func() string {
		srv := createLspTest(dir, "file://"+dir)
		file := dir + "/c/main.lua"
		srv.TextDocumentDidOpen(context.Background(), lsp.DidOpenTextDocumentParams{
			TextDocument: lsp.TextDocumentItem{URI: lsp.DocumentURI(file), Text: files["c/main.lua"]},
		})
		return detDemoDefine(srv, file, 0, 20) + " | " + detDemoDefine(srv, file, 1, 3) + " | " + detDemoDefine(srv, file, 2, 3)
	})
	if len(got) != 1 {
		t.Errorf("same workspace, %d different answers: %v", len(got), got)
	}
}

// workspace/symbol truncates to 200 entries after sorting by score only: with more than 200 equally
// scored matches, WHICH symbols are returned must not depend on map iteration / worker completion order.
func TestFindDemoWorkspaceSymbolCutoffOrder(t *testing.T) {
	files := map[string]string{}
	for f := 0; f < 4; f++ {
		src := ""
		for i := 0; i < 90; i++ {
			src += fmt.Sprintf("qv%d%02d = %d\n", f, i, i)
		}
		files[fmt.Sprintf("m%d.lua", f)] = src
	}
	dir := detDemoWorkspace(t, files)
	defer os.RemoveAll(dir)
	got := detDemoDistinct(t, 12, func() string {
		srv := createLspTest(dir, "file://"+dir)
		items, _ := srv.WorkspaceSymbolRequest(context.Background(), lsp.WorkspaceSymbolParams{Query: "qv"})
		var names []string
		for _, it := range items {
			names = append(names, it.Name)
		}
		sort.Strings(names)
		return fmt.Sprintf("%d:%s", len(names), strings.Join(names, ","))
	})
	if len(got) != 1 {
		t.Errorf("same workspace and query, %d different result sets", len(got))
	}
}

// A file that belongs to two entry-file projects of the same size: the project whose globals answer a
// query in that file must not depend on map iteration order.
func TestFindDemoSecondProjectTieOrder(t *testing.T) {
	files := map[string]string{
		"luahelper.json": `{"BaseDir":"./","ShowWarnFlag":1,"ProjectFiles":["e1.lua","e2.lua"]}`,
		"e1.lua":         "require(\"x1\")\nrequire(\"shared\")\n",
		"e2.lua":         "require(\"x2\")\nrequire(\"shared\")\n",
		"x1.lua":         "G_val = 1\n",
		"x2.lua":         "G_val = \"two\"\n",
		"shared.lua":     "print(G_val)\n",
	}
	dir := detDemoWorkspace(t, files)
	defer os.RemoveAll(dir)
	got := detDemoDistinct(t, 40, func() string {
		srv := createLspTest(dir, "file://"+dir)
		file := dir + "/shared.lua"
		srv.TextDocumentDidOpen(context.Background(), lsp.DidOpenTextDocumentParams{
			TextDocument: lsp.TextDocumentItem{URI: lsp.DocumentURI(file), Text: files["shared.lua"]},
		})
		return detDemoDefine(srv, file, 0, 8)
	})
	if len(got) != 1 {
		t.Errorf("same workspace, %d different answers: %v", len(got), got)
	}
	t.Logf("%v", got)
}

// A protocol symbol (luahelper.json ProtocolVars) defined in two files: the file that answers a query on
// the bare name must not depend on map iteration order.
func TestFindDemoProtocolDefineOrder(t *testing.T) {
	files := map[string]string{
		"luahelper.json": `{"BaseDir":"./","ShowWarnFlag":1,"ProtocolVars":["s2s"]}`,
		"a.lua":          "s2s.ping = function() end\n",
		"b.lua":          "s2s.ping = function() end\n",
		"main.lua":       "ping()\n",
	}
	dir := detDemoWorkspace(t, files)
	defer os.RemoveAll(dir)
	got := detDemoDistinct(t, 40, func() string {
		srv := createLspTest(dir, "file://"+dir)
		file := dir + "/main.lua"
		srv.TextDocumentDidOpen(context.Background(), lsp.DidOpenTextDocumentParams{
			TextDocument: lsp.TextDocumentItem{URI: lsp.DocumentURI(file), Text: files["main.lua"]},
		})
		return detDemoDefine(srv, file, 0, 2)
	})
	if len(got) != 1 {
		t.Errorf("same workspace, %d different answers: %v", len(got), got)
	}
	t.Logf("%v", got)
}

// The same global function defined in two files at the same rank (top level, same line): the definition
// that answers must not depend on map iteration order (no entry files: third-phase global table).
func TestFindDemoDuplicateGlobalSameRankOrder(t *testing.T) {
	files := map[string]string{
		"a.lua": "function dupFunc(a) end\n",
		"b.lua": "function dupFunc(a, b, c) end\n",
		"c.lua": "dupFunc(1)\n",
	}
	dir := detDemoWorkspace(t, files)
	defer os.RemoveAll(dir)
	got := detDemoDistinct(t, 40, func() string {
		srv := createLspTest(dir, "file://"+dir)
		file := dir + "/c.lua"
		srv.TextDocumentDidOpen(context.Background(), lsp.DidOpenTextDocumentParams{
			TextDocument: lsp.TextDocumentItem{URI: lsp.DocumentURI(file), Text: files["c.lua"]},
		})
		return detDemoDefine(srv, file, 0, 3)
	})
	if len(got) != 1 {
		t.Errorf("same workspace, %d different answers: %v", len(got), got)
	}
	t.Logf("%v", got)
}

// Entry-file project: two required modules define the same global; the definition that answers in the
// entry file must not depend on map iteration order.
func TestFindDemoSecondProjectRequireGlobalsOrder(t *testing.T) {
	files := map[string]string{
		"luahelper.json": `{"BaseDir":"./","ShowWarnFlag":1,"ProjectFiles":["e.lua"]}`,
		"e.lua":          "require(\"m1\")\nrequire(\"m2\")\nprint(gdup)\nprint(_G.gdup2)\n",
		"m1.lua":         "require(\"a\")\n",
		"m2.lua":         "require(\"b\")\n",
		"a.lua":          "gdup = 1\n_G.gdup2 = 1\n",
		"b.lua":          "gdup = \"s\"\n_G.gdup2 = \"s\"\n",
	}
	dir := detDemoWorkspace(t, files)
	defer os.RemoveAll(dir)
	got := detDemoDistinct(t, 60, func() string {
		srv := createLspTest(dir, "file://"+dir)
		file := dir + "/e.lua"
		srv.TextDocumentDidOpen(context.Background(), lsp.DidOpenTextDocumentParams{
			TextDocument: lsp.TextDocumentItem{URI: lsp.DocumentURI(file), Text: files["e.lua"]},
		})
		return detDemoDefine(srv, file, 2, 8) + " | " + detDemoDefine(srv, file, 3, 10)
	})
	if len(got) != 1 {
		t.Errorf("same workspace, %d different answers: %v", len(got), got)
	}
	t.Logf("%v", got)
}
