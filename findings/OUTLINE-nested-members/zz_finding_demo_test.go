package langserver

import (
	"context"
	"io/ioutil"
	"os"
	"path/filepath"
	"testing"

	lsp "luahelper-lsp/langserver/protocol"
)

// Functions and variables that are members of a table member (`function gn.s2.g3() end`, `gn.s2.v4 = 1`) are declared
// in the file like any other: the outline lists them and workspace/symbol finds them by name.
func TestFindDemoMembersOfMembersAreListed(t *testing.T) {
	dir, _ := ioutil.TempDir("", "lhfinding")
	defer os.RemoveAll(dir)
	dir, _ = filepath.EvalSymlinks(dir)
	src := "gn = {}\ngn.s2 = {}\nfunction gn.s2.g3(a) return a end\ngn.s2.v4 = 1\nlocal ln = {}\nln.s2 = {}\nfunction ln.s2.g3(b) return b end\nreturn ln\n"
	file := filepath.Join(dir, "a.lua")
	ioutil.WriteFile(file, []byte(src), 0o644)
	s := createLspTest(dir, "file://"+dir)
	ctx := context.Background()
	s.TextDocumentDidOpen(ctx, lsp.DidOpenTextDocumentParams{TextDocument: lsp.TextDocumentItem{URI: lsp.DocumentURI(file), Text: src}})
	syms, _ := s.TextDocumentSymbol(ctx, lsp.DocumentSymbolParams{TextDocument: lsp.TextDocumentIdentifier{URI: lsp.DocumentURI(file)}})
	seen := map[string]bool{}
	var walk func(ss []lsp.DocumentSymbol)
	walk = func(ss []lsp.DocumentSymbol) {
		for _, sy := range ss {
			seen[sy.Name] = true
			walk(sy.Children)
		}
	}
	walk(syms)
	for _, name := range []string{"gn.s2.g3(a)", "gn.s2.v4", "ln.s2.g3(b)"} {
		if !seen[name] {
			t.Errorf("outline: %s is missing", name)
		}
	}
	for q, want := range map[string]string{"g3": "gn.s2.g3", "v4": "gn.s2.v4"} {
		res, _ := s.WorkspaceSymbolRequest(ctx, lsp.WorkspaceSymbolParams{Query: q})
		ok := false
		for _, r := range res {
			if r.Name == want {
				ok = true
			}
		}
		if !ok {
			t.Errorf("workspace/symbol %q: no entry %s", q, want)
		}
	}
}
