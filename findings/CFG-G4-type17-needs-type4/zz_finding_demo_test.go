package langserver

import (
	"context"
	"io/ioutil"
	"os"
	"path/filepath"
	"testing"

	"luahelper-lsp/langserver/check/common"
	lsp "luahelper-lsp/langserver/protocol"

	"github.com/yinfei8/jrpc2"
	"github.com/yinfei8/jrpc2/handler"
)

// Configuration: every check on except CheckLocalNoUse (type 4). The 'assigned but never used'
// diagnostics (type 17, its own switch CheckNoUseAssign, still on) must stay: turning off one check
// removes exactly that type's diagnostics (C17). checkLocVarCall returned early when type 4 was
// ignored, so type 17 disappeared too.
func TestFindingType17SurvivesType4Off(t *testing.T) {
	dir, _ := ioutil.TempDir("", "lhfinding")
	defer os.RemoveAll(dir)
	dir, _ = filepath.EvalSymlinks(dir)
	src := "local function f()\n  local xx = 1\n  xx = 2\nend\nf()\n"
	ioutil.WriteFile(filepath.Join(dir, "a.lua"), []byte(src), 0o644)
	count := func(localNoUse bool) (n4, n17 int) {
		common.GlobalConfigDefautInit()
		common.GConfig.IntialGlobalVar()
		s := CreateLspServer()
		s.server = jrpc2.NewServer(handler.Map{}, &jrpc2.ServerOptions{AllowPush: false, Concurrency: 1})
		opts := &InitializationOptions{AllEnable: true, CheckSyntax: true, CheckLocalNoUse: localNoUse, CheckNoUseAssign: true}
		s.Initialize(context.Background(), InitializeParams{
			InitializeParams:      lsp.InitializeParams{InnerInitializeParams: lsp.InnerInitializeParams{RootPath: dir, RootURI: lsp.DocumentURI("file://" + dir)}},
			InitializationOptions: opts})
		for _, e := range s.getAllProject().GetAllFileErrorInfo()[filepath.Join(dir, "a.lua")] {
			switch e.ErrType {
			case common.CheckErrorLocalNoUse:
				n4++
			case common.CheckErrorNoUseAssign:
				n17++
			}
		}
		return
	}
	a4, a17 := count(true)
	if a4 != 1 || a17 != 1 {
		t.Fatalf("all relevant checks on: want one type-4 and one type-17 diagnostic, got %d and %d", a4, a17)
	}
	b4, b17 := count(false)
	if b4 != 0 {
		t.Errorf("CheckLocalNoUse off: %d type-4 diagnostics", b4)
	}
	if b17 != a17 {
		t.Errorf("CheckLocalNoUse off changed the type-17 diagnostics: %d instead of %d", b17, a17)
	}
}
