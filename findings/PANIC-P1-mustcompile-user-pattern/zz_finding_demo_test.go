package langserver

import (
	"context"
	"io/ioutil"
	"os"
	"path/filepath"
	"testing"

	"luahelper-lsp/langserver/check/common"
	lsp "luahelper-lsp/langserver/protocol"

	"github.com/yinfei8/jrpc2"
	"github.com/yinfei8/jrpc2/handler"
)

func findingServer(dir string, opts *InitializationOptions) *LspServer {
	common.GlobalConfigDefautInit()
	common.GConfig.IntialGlobalVar()
	s := CreateLspServer()
	s.server = jrpc2.NewServer(handler.Map{}, &jrpc2.ServerOptions{AllowPush: false, Concurrency: 1})
	s.Initialize(context.Background(), InitializeParams{
		InitializeParams: lsp.InitializeParams{InnerInitializeParams: lsp.InnerInitializeParams{RootPath: dir, RootURI: lsp.DocumentURI("file://" + dir)}},
		InitializationOptions: opts,
	})
	return s
}

// A malformed ignore pattern in the client settings must not take the server down (C17, C01).
func TestFindingMalformedIgnorePatternInClientSettings(t *testing.T) {
	dir, _ := ioutil.TempDir("", "lhfinding")
	defer os.RemoveAll(dir)
	dir, _ = filepath.EvalSymlinks(dir)
	ioutil.WriteFile(filepath.Join(dir, "a.lua"), []byte("local a = 1\nreturn a\n"), 0o644)
	findingServer(dir, &InitializationOptions{AllEnable: true, IgnoreFileOrDirError: []string{"("}})
}

// A malformed pattern in luahelper.json must not take the server down.
func TestFindingMalformedIgnorePatternInJSON(t *testing.T) {
	dir, _ := ioutil.TempDir("", "lhfinding")
	defer os.RemoveAll(dir)
	dir, _ = filepath.EvalSymlinks(dir)
	ioutil.WriteFile(filepath.Join(dir, "a.lua"), []byte("local a = 1\nreturn a\n"), 0o644)
	ioutil.WriteFile(filepath.Join(dir, "luahelper.json"), []byte(`{"IgnoreFileErr":["[a"],"IgnoreFileErrTypes":[{"Name":"(x","Types":[2]}]}`), 0o644)
	findingServer(dir, &InitializationOptions{AllEnable: true})
}

// A frame "refer file" name with a regexp meta character must not kill hover.
func TestFindingReferFrameNameWithMetaCharacter(t *testing.T) {
	dir, _ := ioutil.TempDir("", "lhfinding")
	defer os.RemoveAll(dir)
	dir, _ = filepath.EvalSymlinks(dir)
	src := "local a = 1\nprint(a)\n"
	file := filepath.Join(dir, "a.lua")
	ioutil.WriteFile(file, []byte(src), 0o644)
	ioutil.WriteFile(filepath.Join(dir, "luahelper.json"), []byte(`{"ReferFrameFiles":[{"Name":"imp(","Type":0,"SuffixFlag":1}]}`), 0o644)
	s := findingServer(dir, &InitializationOptions{AllEnable: true})
	ctx := context.Background()
	s.TextDocumentDidOpen(ctx, lsp.DidOpenTextDocumentParams{TextDocument: lsp.TextDocumentItem{URI: lsp.DocumentURI(file), Text: src}})
	s.TextDocumentHover(ctx, lsp.TextDocumentPositionParams{TextDocument: lsp.TextDocumentIdentifier{URI: lsp.DocumentURI(file)}, Position: lsp.Position{Line: 1, Character: 6}})
	s.TextDocumentComplete(ctx, lsp.CompletionParams{TextDocumentPositionParams: lsp.TextDocumentPositionParams{TextDocument: lsp.TextDocumentIdentifier{URI: lsp.DocumentURI(file)}, Position: lsp.Position{Line: 1, Character: 7}}})
}
