package parser

import "testing"

// A short string whose last bytes are a backslash followed by the final newline of the file
// (`x = "abc\` + "\n") made readEscapeSequence ask for the location of the look-ahead token while
// the string itself was still unconsumed: GetHeardTokenLoc -> lookAheardToken -> NextTokenStruct
// -> scanShortString -> readEscapeSequence -> ... until the stack overflowed (fatal, not
// recoverable by BeginAnalyze's recover): any open buffer in that state killed the server (C01).
func TestFindingBackslashNewlineAtEOF(t *testing.T) {
	for _, src := range []string{"x = \"abc\\\n", "x = 'abc\\\r", "print(\"a\\"} {
		p := CreateParser([]byte(src), "finding")
		_, _, errs := p.BeginAnalyze()
		if len(errs) == 0 {
			t.Errorf("%q: unfinished string reported without a syntax error", src)
		}
	}
}
