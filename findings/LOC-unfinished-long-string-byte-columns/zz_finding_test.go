package parser

import (
	"testing"
	"unicode/utf8"
)

// An unfinished long string whose last line holds multi-byte characters: the "missing `]]`" diagnostic is located at
// the end of the input, and its column was counted in bytes (cursor advanced by len(chunk), line start re-based by the
// byte length of the last line) — beyond the end of the line in the client's characters.
func TestFindingUnfinishedLongStringColumn(t *testing.T) {
	lastLine := "末尾的文字"
	src := "local s = [[first line\n" + lastLine
	p := CreateParser([]byte(src), "test")
	_, _, errList := p.BeginAnalyze()
	if len(errList) == 0 {
		t.Fatalf("no error for an unfinished long string")
	}
	want := utf8.RuneCountInString(lastLine)
	for _, e := range errList {
		t.Logf("error %q at %d:%d-%d:%d", e.ErrStr, e.Loc.StartLine, e.Loc.StartColumn, e.Loc.EndLine, e.Loc.EndColumn)
		if e.Loc.EndLine == 2 && (e.Loc.StartColumn > want || e.Loc.EndColumn > want) {
			t.Errorf("line 2 has %d characters, the diagnostic is at columns %d-%d", want, e.Loc.StartColumn, e.Loc.EndColumn)
		}
	}
}
