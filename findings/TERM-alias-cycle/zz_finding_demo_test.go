package langserver

import (
	"context"
	"io/ioutil"
	"os"
	"path/filepath"
	"strings"
	"testing"

	lsp "luahelper-lsp/langserver/protocol"
)

// `---@alias AA AA` (or A -> B -> A) made GetAllArrayType / GetAllTableType / GetAllTableKeyType
// follow the alias by name for ever: stack overflow on hover/completion over a for-loop variable
// or an indexed element of a variable of that type (C15 "cyclic alias chains neither hang nor crash").
func TestFindingCyclicAliasDoesNotOverflow(t *testing.T) {
	dir, _ := ioutil.TempDir("", "lhfinding")
	defer os.RemoveAll(dir)
	dir, _ = filepath.EvalSymlinks(dir)
	src := "---@alias AA AA\n---@alias TB TC\n---@alias TC TB\n---@type AA\nlocal v1 = {}\n---@type TB\nlocal v2 = {}\n" +
		"for k, e in ipairs(v1) do print(e.x) end\nfor k2, e2 in pairs(v2) do print(e2.x, k2.y) end\nprint(v1[1].y)\n"
	file := filepath.Join(dir, "a.lua")
	ioutil.WriteFile(file, []byte(src), 0o644)
	s := createLspTest(dir, "file://"+dir)
	ctx := context.Background()
	uri := lsp.DocumentURI(file)
	s.TextDocumentDidOpen(ctx, lsp.DidOpenTextDocumentParams{TextDocument: lsp.TextDocumentItem{URI: uri, Text: src}})
	for li, line := range strings.Split(src, "\n") {
		for ch := 0; ch <= len(line); ch++ {
			pp := lsp.TextDocumentPositionParams{TextDocument: lsp.TextDocumentIdentifier{URI: uri}, Position: lsp.Position{Line: uint32(li), Character: uint32(ch)}}
			s.TextDocumentHover(ctx, pp)
			s.TextDocumentComplete(ctx, lsp.CompletionParams{TextDocumentPositionParams: pp})
			s.TextDocumentDefine(ctx, pp)
		}
	}
}
