package langserver

import (
	"context"
	"fmt"
	"io/ioutil"
	"luahelper-lsp/langserver/check/common"
	lsp "luahelper-lsp/langserver/protocol"
	"os"
	"path/filepath"
	"sort"
	"strings"
	"testing"

	"github.com/yinfei8/jrpc2"
	"github.com/yinfei8/jrpc2/handler"
)

func find6DemoAllOn() *InitializationOptions {
	return &InitializationOptions{
		Client: "vsc", LocalRun: true, AllEnable: true, CheckSyntax: true, CheckNoDefine: true,
		CheckAfterDefine: true, CheckLocalNoUse: true, CheckTableDuplicateKey: true, CheckReferNoFile: true,
		CheckAssignParamNum: true, CheckLocalDefineParamNum: true, CheckGotoLable: true, CheckFuncParam: true,
		CheckImportModuleVar: true, CheckIfNotVar: true, CheckFunctionDuplicateParam: true,
		CheckBinaryExpressionDuplicate: true, CheckErrorOrAlwaysTrue: true, CheckErrorAndAlwaysFalse: true,
		CheckNoUseAssign: true, CheckAnnotateType: true, CheckDuplicateIf: true, CheckSelfAssign: true,
		CheckFloatEq: true, CheckClassField: true, CheckConstAssign: true, CheckFuncParamType: true,
		CheckFuncReturnType: true,
	}
}

func find6DemoDiags(t *testing.T, files map[string]string, opts *InitializationOptions) []string {
	dir, err := ioutil.TempDir("", "finddemo")
	if err != nil {
		t.Fatal(err)
	}
	defer os.RemoveAll(dir)
	dir, _ = filepath.EvalSymlinks(dir)
	for n, c := range files {
		if err := ioutil.WriteFile(filepath.Join(dir, n), []byte(c), 0644); err != nil {
			t.Fatal(err)
		}
	}
	common.GlobalConfigDefautInit()
	common.GConfig.IntialGlobalVar()
	lspServer := CreateLspServer()
	lspServer.server = jrpc2.NewServer(handler.Map{}, &jrpc2.ServerOptions{AllowPush: false, Concurrency: 1})
	_, err = lspServer.Initialize(context.Background(), InitializeParams{
		InitializeParams: lsp.InitializeParams{
			InnerInitializeParams: lsp.InnerInitializeParams{RootPath: dir, RootURI: lsp.DocumentURI("file://" + dir)},
		},
		InitializationOptions: opts,
	})
	if err != nil {
		t.Fatal(err)
	}
	var out []string
	for strFile, errList := range lspServer.project.GetAllFileErrorInfo() {
		for _, e := range errList {
			out = append(out, fmt.Sprintf("%s %d@%d:%d %s", filepath.Base(strFile), e.ErrType, e.Loc.StartLine, e.Loc.StartColumn, e.ErrStr))
		}
	}
	sort.Strings(out)
	return out
}

// With type 10 (argument COUNT) ignored, the argument TYPE diagnostics (type 24, opened through
// OpenErrorTypes) must stay: ignoring one type removes exactly that type's diagnostics.
func TestFind6DemoType24SurvivesType10Off(t *testing.T) {
	lua := "---@param n number\n---@param s string\nfunction typed(n, s)\n  return n, s\nend\nfunction caller()\n  typed(\"x\", 1)\n  typed(1, 2, 3)\nend\n"
	all := find6DemoDiags(t, map[string]string{
		"luahelper.json": `{"BaseDir":"./","ShowWarnFlag":1,"OpenErrorTypes":[24],"IgnoreErrorTypes":[4,17]}`,
		"main.lua":       lua,
	}, find6DemoAllOn())
	got := find6DemoDiags(t, map[string]string{
		"luahelper.json": `{"BaseDir":"./","ShowWarnFlag":1,"OpenErrorTypes":[24],"IgnoreErrorTypes":[4,17,10]}`,
		"main.lua":       lua,
	}, find6DemoAllOn())
	var want []string
	has24 := false
	for _, d := range all {
		if strings.Contains(d, " 24@") {
			has24 = true
		}
		if !strings.Contains(d, " 10@") {
			want = append(want, d)
		}
	}
	if !has24 {
		t.Fatalf("precondition: no type-24 diagnostic with type 24 opened: %v", all)
	}
	if fmt.Sprint(got) != fmt.Sprint(want) {
		t.Errorf("with type 10 ignored:\n got:  %v\n want: %v (same minus type 10)", got, want)
	}
}
