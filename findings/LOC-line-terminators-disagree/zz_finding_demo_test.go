package langserver

import (
	"context"
	"io/ioutil"
	"os"
	"path/filepath"
	"testing"

	lsp "luahelper-lsp/langserver/protocol"
)

// LSP (and the server's own lexer) treat "\n", "\r\n" and a lone "\r" as line terminators. A document with lone
// "\r" line ends has its second line at LSP line 1: go-to-definition there must find the local declared on line 0.
// (The position-to-offset conversion only counts "\n": it answers "file only has 1 lines".)
func TestFindDemoBareCarriageReturnLines(t *testing.T) {
	dir, _ := ioutil.TempDir("", "finddemo")
	defer os.RemoveAll(dir)
	dir, _ = filepath.EvalSymlinks(dir)
	for _, tc := range []struct{ name, eol string }{{"lf.lua", "\n"}, {"crlf.lua", "\r\n"}, {"cr.lua", "\r"}} {
		src := "local abc = 1" + tc.eol + "local def = abc" + tc.eol
		file := filepath.Join(dir, tc.name)
		ioutil.WriteFile(file, []byte(src), 0o644)
		s := createLspTest(dir, "file://"+dir)
		ctx := context.Background()
		uri := lsp.DocumentURI(file)
		s.TextDocumentDidOpen(ctx, lsp.DidOpenTextDocumentParams{TextDocument: lsp.TextDocumentItem{URI: uri, Text: src}})
		locs, err := s.TextDocumentDefine(ctx, lsp.TextDocumentPositionParams{
			TextDocument: lsp.TextDocumentIdentifier{URI: uri}, Position: lsp.Position{Line: 1, Character: 13}})
		if err != nil || len(locs) != 1 || locs[0].Range.Start.Line != 0 || locs[0].Range.Start.Character != 6 {
			t.Errorf("%s: definition of abc asked at 1:13: got %v (err %v), want one location at 0:6", tc.name, locs, err)
		}
	}
}
