package parser

import (
	"testing"

	"luahelper-lsp/langserver/check/compiler/ast"
	"luahelper-lsp/langserver/check/compiler/lexer"
)

// An unfinished long-bracket opener (`[=` or `[==` not followed by `[`) is a syntax error, not an internal fault:
// the statements before it stay in the syntax tree. (With the opener at the very end of the buffer - what a user
// has while typing a long string - the lexer advanced one byte past the input, panicked, and the parser's
// recover() returned an empty tree for the whole file.)
func TestFindDemoUnfinishedLongBracketKeepsTree(t *testing.T) {
	for _, src := range []string{"local a = 1\nlocal b = [=", "local a = 1\nlocal b = [==", "local a = 1\nlocal b = [=x"} {
		block, _, errs := CreateParser([]byte(src), "demo.lua").BeginAnalyze()
		if len(errs) == 0 {
			t.Errorf("%q: no syntax error reported", src)
		}
		found := false
		for _, st := range block.Stats {
			if ld, ok := st.(*ast.LocalVarDeclStat); ok && len(ld.NameList) == 1 && ld.NameList[0] == "a" {
				found = true
			}
		}
		if !found {
			t.Errorf("%q: the declaration of a is missing from the syntax tree (%d statements): the parse was abandoned", src, len(block.Stats))
		}
	}
}

// The byte after the invalid opener is not part of it: a line break there still counts as a line break, and a
// name there is still a token.
func TestFindDemoInvalidLongBracketDoesNotSwallowNextByte(t *testing.T) {
	lx := lexer.NewLexer([]byte("x = [=\ny = 1"), "demo.lua")
	lx.SetErrHandler(func(lexer.ParseError) {})
	for {
		line, kind, tok := lx.NextToken()
		if kind == lexer.TkEOF {
			t.Fatalf("token y not found")
		}
		if tok == "y" {
			if line != 2 {
				t.Errorf("y is written on line 2, reported on line %d", line)
			}
			break
		}
	}
	lx = lexer.NewLexer([]byte("x = [=y"), "demo.lua")
	lx.SetErrHandler(func(lexer.ParseError) {})
	seen := false
	for {
		_, kind, tok := lx.NextToken()
		if kind == lexer.TkEOF {
			break
		}
		if tok == "y" {
			seen = true
		}
	}
	if !seen {
		t.Errorf("the name after the invalid opener `[=` was swallowed")
	}
}
