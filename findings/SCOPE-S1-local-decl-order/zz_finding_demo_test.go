package langserver

import (
	"context"
	"io/ioutil"
	"os"
	"path/filepath"
	"testing"

	"luahelper-lsp/langserver/check/common"
	lsp "luahelper-lsp/langserver/protocol"
)

// `local a, b = 1, a`: Lua evaluates the whole expression list before the new locals exist, so the
// `a` in the initialiser is the (undefined) global a. The walker declared each name right after
// its own initialiser, so the second initialiser resolved to the NEW local `a`:
//   - no 'undefined variable' (type 2) diagnostic for the global read (C07),
//   - find-references on the new local `a` included the initialiser occurrence (C06).
func TestFindingLocalListInitialiserSeesNewLocal(t *testing.T) {
	dir, _ := ioutil.TempDir("", "lhfinding")
	defer os.RemoveAll(dir)
	dir, _ = filepath.EvalSymlinks(dir)
	ioutil.WriteFile(filepath.Join(dir, "luahelper.json"), []byte(`{"ShowWarnFlag":1}`), 0o644)
	src := "local aaa, bbb = 1, aaa\nprint(aaa, bbb)\n"
	file := filepath.Join(dir, "a.lua")
	ioutil.WriteFile(file, []byte(src), 0o644)
	s := createLspTest(dir, "file://"+dir)
	nUndef := 0
	for _, e := range s.getAllProject().GetAllFileErrorInfo()[file] {
		if e.ErrType == common.CheckErrorNoDefine && e.Loc.StartLine == 1 {
			nUndef++
		}
	}
	if nUndef != 1 {
		t.Errorf("want exactly one undefined-variable diagnostic on line 1 (global aaa read in the initialiser), got %d", nUndef)
	}
	ctx := context.Background()
	uri := lsp.DocumentURI(file)
	s.TextDocumentDidOpen(ctx, lsp.DidOpenTextDocumentParams{TextDocument: lsp.TextDocumentItem{URI: uri, Text: src}})
	refs, _ := s.TextDocumentReferences(ctx, lsp.ReferenceParams{
		TextDocumentPositionParams: lsp.TextDocumentPositionParams{TextDocument: lsp.TextDocumentIdentifier{URI: uri}, Position: lsp.Position{Line: 0, Character: 7}},
		Context:                    lsp.ReferenceContext{IncludeDeclaration: true}})
	for _, r := range refs {
		if r.Range.Start.Line == 0 && r.Range.Start.Character >= 15 {
			t.Errorf("references of the new local aaa include the initialiser occurrence at %v, which Lua binds to the global", r.Range)
		}
	}
}
