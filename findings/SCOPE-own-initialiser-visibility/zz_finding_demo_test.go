package langserver

import (
	"context"
	"fmt"
	"io/ioutil"
	"os"
	"path/filepath"
	"testing"

	lsp "luahelper-lsp/langserver/protocol"
)

// A local is not visible inside its own initialiser: in `local x = x + 1` (also `x .. "s"`, `-x`, `{x}`,
// `(x)`, `t[x]`) the x on the right is the OUTER x.
func TestFind4DemoLocalNotVisibleInOwnInitialiser(t *testing.T) {
	dir, err := ioutil.TempDir("", "find4demo")
	if err != nil {
		t.Fatal(err)
	}
	defer os.RemoveAll(dir)
	dir, _ = filepath.EvalSymlinks(dir)
	src := "local x = 1\n" + // line 0: outer x
		"do\n" +
		"  local x = x + 1\n" + // line 2
		"  print(x)\n" +
		"end\n" +
		"do\n" +
		"  local x = -x\n" + // line 6
		"end\n" +
		"do\n" +
		"  local x = { x }\n" + // line 9
		"end\n" +
		"do\n" +
		"  local x = x\n" + // line 12 (control: plain name)
		"end\n"
	file := dir + "/main.lua"
	if err := ioutil.WriteFile(file, []byte(src), 0644); err != nil {
		t.Fatal(err)
	}
	srv := createLspTest(dir, "file://"+dir)
	ctx := context.Background()
	srv.TextDocumentDidOpen(ctx, lsp.DidOpenTextDocumentParams{TextDocument: lsp.TextDocumentItem{URI: lsp.DocumentURI(file), Text: src}})
	def := func(line, ch uint32) string {
		locs, _ := srv.TextDocumentDefine(ctx, lsp.TextDocumentPositionParams{
			TextDocument: lsp.TextDocumentIdentifier{URI: lsp.DocumentURI(file)},
			Position:     lsp.Position{Line: line, Character: ch},
		})
		if len(locs) == 0 {
			return "none"
		}
		return fmt.Sprintf("%d:%d", locs[0].Range.Start.Line, locs[0].Range.Start.Character)
	}
	for _, c := range []struct {
		line, ch uint32
		what     string
	}{{2, 12, "x + 1"}, {6, 13, "-x"}, {9, 14, "{ x }"}, {12, 12, "x"}} {
		if got := def(c.line, c.ch); got != "0:6" {
			t.Errorf("`local x = %s`: the x on the right resolves to %s, want the outer declaration 0:6", c.what, got)
		}
	}
}
