package langserver

import (
	"context"
	"fmt"
	"io/ioutil"
	"os"
	"path/filepath"
	"sort"
	"strings"
	"testing"

	lsp "luahelper-lsp/langserver/protocol"
)

// find3DemoWordOccurrences returns "line:startCol-endCol" (0-based, end exclusive) for every
// whole-word occurrence of word in src.
func find3DemoWordOccurrences(src, word string) []string {
	isID := func(c byte) bool {
		return c == '_' || (c >= 'a' && c <= 'z') || (c >= 'A' && c <= 'Z') || (c >= '0' && c <= '9')
	}
	var out []string
	for li, l := range strings.Split(src, "\n") {
		for ci := 0; ci+len(word) <= len(l); ci++ {
			if l[ci:ci+len(word)] != word {
				continue
			}
			if ci > 0 && isID(l[ci-1]) {
				continue
			}
			if ci+len(word) < len(l) && isID(l[ci+len(word)]) {
				continue
			}
			out = append(out, fmt.Sprintf("%d:%d-%d", li, ci, ci+len(word)))
		}
	}
	sort.Strings(out)
	return out
}

func find3DemoAllRefs(t *testing.T, srv *LspServer, file string, line, ch uint32) []string {
	res, err := srv.TextDocumentReferences(context.Background(), lsp.ReferenceParams{
		TextDocumentPositionParams: lsp.TextDocumentPositionParams{
			TextDocument: lsp.TextDocumentIdentifier{URI: lsp.DocumentURI(file)},
			Position:     lsp.Position{Line: line, Character: ch},
		},
	})
	if err != nil {
		t.Fatalf("references error: %v", err)
	}
	var out []string
	for _, l := range res {
		u := string(l.URI)
		out = append(out, fmt.Sprintf("%s:%d:%d-%d", u[strings.LastIndex(u, "/")+1:], l.Range.Start.Line, l.Range.Start.Character, l.Range.End.Character))
	}
	sort.Strings(out)
	return out
}

// A global defined in a.lua at 1:0 and used in b.lua at exactly the same line and column: the use in
// b.lua is an occurrence of that global and must be returned by find-references.
func TestFind3DemoUseAtDefinitionPositionInOtherFile(t *testing.T) {
	dir, err := ioutil.TempDir("", "find3demo")
	if err != nil {
		t.Fatal(err)
	}
	defer os.RemoveAll(dir)
	dir, _ = filepath.EvalSymlinks(dir)
	files := map[string]string{
		"a.lua": "gshared = 1\nprint(gshared)\n",
		"b.lua": "gshared()\nprint(gshared)\n",
	}
	for n, c := range files {
		if err := ioutil.WriteFile(dir+"/"+n, []byte(c), 0644); err != nil {
			t.Fatal(err)
		}
	}
	srv := createLspTest(dir, "file://"+dir)
	ctx := context.Background()
	for n, c := range files {
		srv.TextDocumentDidOpen(ctx, lsp.DidOpenTextDocumentParams{TextDocument: lsp.TextDocumentItem{URI: lsp.DocumentURI(dir + "/" + n), Text: c}})
	}
	got := find3DemoAllRefs(t, srv, dir+"/a.lua", 1, 8)
	want := []string{"a.lua:0:0-7", "a.lua:1:6-13", "b.lua:0:0-7", "b.lua:1:6-13"}
	if strings.Join(got, " ") != strings.Join(want, " ") {
		t.Errorf("references of gshared: got %v want %v", got, want)
	}
}
