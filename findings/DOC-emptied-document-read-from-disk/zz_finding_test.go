package langserver

import (
	"context"
	"os"
	"path/filepath"
	"testing"

	lsp "luahelper-lsp/langserver/protocol"
)

// A document emptied by a range edit (select all, delete): ApplyContentChanges returned the nil slice of an unwritten
// bytes.Buffer, and the analysis takes nil content for "no content passed" and reads the file from disk — the outline of
// the (empty) buffer lists the symbols of the saved file.
func TestFindingEmptiedDocumentIsAnalysedAsEmpty(t *testing.T) {
	dir := t.TempDir()
	fileName := filepath.Join(dir, "main.lua")
	text := "gvalue = 1\nfunction gfunc() end\n"
	if err := os.WriteFile(fileName, []byte(text), 0o644); err != nil {
		t.Fatal(err)
	}
	lspServer := createLspTest(dir, "file://"+dir)
	ctx := context.Background()
	if err := lspServer.TextDocumentDidOpen(ctx, lsp.DidOpenTextDocumentParams{
		TextDocument: lsp.TextDocumentItem{URI: lsp.DocumentURI(fileName), Text: text},
	}); err != nil {
		t.Fatal(err)
	}
	outline := func() []string {
		items, err := lspServer.TextDocumentSymbol(ctx, lsp.DocumentSymbolParams{TextDocument: lsp.TextDocumentIdentifier{URI: lsp.DocumentURI(fileName)}})
		if err != nil {
			t.Fatal(err)
		}
		var names []string
		for _, it := range items {
			names = append(names, it.Name)
		}
		return names
	}
	if got := outline(); len(got) != 2 {
		t.Fatalf("outline of the opened document: %v", got)
	}
	// select all, delete
	lspServer.TextDocumentDidChange(ctx, lsp.DidChangeTextDocumentParams{
		TextDocument: lsp.VersionedTextDocumentIdentifier{TextDocumentIdentifier: lsp.TextDocumentIdentifier{URI: lsp.DocumentURI(fileName)}},
		ContentChanges: []lsp.TextDocumentContentChangeEvent{{
			Range:       &lsp.Range{Start: lsp.Position{Line: 0, Character: 0}, End: lsp.Position{Line: 2, Character: 0}},
			RangeLength: uint32(len(text)),
			Text:        "",
		}},
	})
	if got := outline(); len(got) != 0 {
		t.Errorf("the document is empty, its outline lists %v (the symbols of the file on disk)", got)
	}
}
