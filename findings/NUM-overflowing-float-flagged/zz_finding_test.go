package parser

import "testing"

// `1e999` is a valid Lua numeral (its value is inf); strconv.ParseFloat reports it with a range error and the parser
// took every error for "malformed number".
func TestFindingOverflowingFloatIsValid(t *testing.T) {
	for _, src := range []string{"local x = 1e999\n", "local y = -1e999\n", "local z = 1e-999\n", "return 0x1p99999\n"} {
		p := CreateParser([]byte(src), "test")
		_, _, errList := p.BeginAnalyze()
		for _, e := range errList {
			t.Errorf("%q is valid Lua, reported: %s", src, e.ErrStr)
		}
	}
}
