package parser

import (
	"testing"
	"unicode/utf8"
)

// An unfinished short string that holds multi-byte characters: the "unfinished string" diagnostic was placed with a
// byte count added to a character column — outside the line it belongs to.
func TestFindingUnfinishedShortStringColumn(t *testing.T) {
	for _, line0 := range []string{"local s = \"中中中中中中", "local s = \"abcdef"} {
		src := line0 + "\nlocal b = 1\n"
		p := CreateParser([]byte(src), "test")
		_, _, errList := p.BeginAnalyze()
		if len(errList) == 0 {
			t.Fatalf("%q: no error for an unfinished string", line0)
		}
		chars := utf8.RuneCountInString(line0)
		for _, e := range errList {
			t.Logf("%q (%d characters): %q at %d:%d-%d:%d", line0, chars, e.ErrStr, e.Loc.StartLine, e.Loc.StartColumn, e.Loc.EndLine, e.Loc.EndColumn)
			if e.Loc.StartLine == 1 && e.Loc.StartColumn > chars+1 {
				t.Errorf("%q has %d characters, the diagnostic starts at column %d", line0, chars, e.Loc.StartColumn)
			}
		}
	}
	// the same at the end of the input, behind an escape
	last := "local s = \"中中中\\"
	p := CreateParser([]byte(last), "test")
	_, _, errList := p.BeginAnalyze()
	for _, e := range errList {
		t.Logf("%q: %q at %d:%d-%d:%d", last, e.ErrStr, e.Loc.StartLine, e.Loc.StartColumn, e.Loc.EndLine, e.Loc.EndColumn)
		if e.Loc.StartColumn > utf8.RuneCountInString(last)+1 {
			t.Errorf("%q has %d characters, the diagnostic starts at column %d", last, utf8.RuneCountInString(last), e.Loc.StartColumn)
		}
	}
}
