package codingconv

import "testing"

// ENC/lead-lengths: the UTF-8 detector of ConvertStrToUtf8 rejected every 2-byte sequence (`num > 2`), although its own
// comment lists 110X_XXXX 10XX_XXXX as a valid form: any text with an accented Latin, Greek or Cyrillic letter was
// decoded as GBK and came back as mojibake (hover documentation, completion details).
func TestFindingTwoByteUtf8(t *testing.T) {
	for _, s := range []string{
		"café",                      // 2-byte
		"Привет, мир",               // 2-byte only
		"naïve 注释 🚀",                // 2-, 3- and 4-byte
		"plain ascii",
	} {
		if got := ConvertStrToUtf8(s); got != s {
			t.Errorf("ConvertStrToUtf8(%q) = %q, want the text unchanged", s, got)
		}
	}
	// a stray continuation byte or a truncated sequence is still not UTF-8
	for _, b := range [][]byte{{0x80}, {0xC3}, {0xE4, 0xB8}, {'a', 0xC3, 'b'}} {
		if isUtf8(b) {
			t.Errorf("isUtf8(% x) = true, want false", b)
		}
	}
}
