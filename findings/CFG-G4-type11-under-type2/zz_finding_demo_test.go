package langserver

import (
	"context"
	"fmt"
	"io/ioutil"
	"luahelper-lsp/langserver/check/common"
	lsp "luahelper-lsp/langserver/protocol"
	"os"
	"path/filepath"
	"sort"
	"strings"
	"testing"

	"github.com/yinfei8/jrpc2"
	"github.com/yinfei8/jrpc2/handler"
)

func findDemoAllOn() *InitializationOptions {
	return &InitializationOptions{
		Client: "vsc", LocalRun: true, AllEnable: true, CheckSyntax: true, CheckNoDefine: true,
		CheckAfterDefine: true, CheckLocalNoUse: true, CheckTableDuplicateKey: true, CheckReferNoFile: true,
		CheckAssignParamNum: true, CheckLocalDefineParamNum: true, CheckGotoLable: true, CheckFuncParam: true,
		CheckImportModuleVar: true, CheckIfNotVar: true, CheckFunctionDuplicateParam: true,
		CheckBinaryExpressionDuplicate: true, CheckErrorOrAlwaysTrue: true, CheckErrorAndAlwaysFalse: true,
		CheckNoUseAssign: true, CheckAnnotateType: true, CheckDuplicateIf: true, CheckSelfAssign: true,
		CheckFloatEq: true, CheckClassField: true, CheckConstAssign: true, CheckFuncParamType: true,
		CheckFuncReturnType: true,
	}
}

func findDemoDiags(t *testing.T, files map[string]string, opts *InitializationOptions) []string {
	dir, err := ioutil.TempDir("", "finddemo")
	if err != nil {
		t.Fatal(err)
	}
	defer os.RemoveAll(dir)
	dir, _ = filepath.EvalSymlinks(dir)
	for n, c := range files {
		if err := ioutil.WriteFile(filepath.Join(dir, n), []byte(c), 0644); err != nil {
			t.Fatal(err)
		}
	}
	common.GlobalConfigDefautInit()
	common.GConfig.IntialGlobalVar()
	lspServer := CreateLspServer()
	lspServer.server = jrpc2.NewServer(handler.Map{}, &jrpc2.ServerOptions{AllowPush: false, Concurrency: 1})
	_, err = lspServer.Initialize(context.Background(), InitializeParams{
		InitializeParams: lsp.InitializeParams{
			InnerInitializeParams: lsp.InnerInitializeParams{RootPath: dir, RootURI: lsp.DocumentURI("file://" + dir)},
		},
		InitializationOptions: opts,
	})
	if err != nil {
		t.Fatal(err)
	}
	var out []string
	for strFile, errList := range lspServer.project.GetAllFileErrorInfo() {
		for _, e := range errList {
			out = append(out, fmt.Sprintf("%s %d@%d:%d %s", filepath.Base(strFile), e.ErrType, e.Loc.StartLine, e.Loc.StartColumn, e.ErrStr))
		}
	}
	sort.Strings(out)
	return out
}

// Turning off ONE check type must remove exactly that type's diagnostics: with CheckNoDefine (type 2) off,
// the type-11 diagnostic "module has no such variable" must still be reported.
func TestFindDemoType11SurvivesType2Off(t *testing.T) {
	files := map[string]string{
		"one.lua":  "function fff() end\n",
		"main.lua": "local a = import(\"one.lua\")\na.bbb()\nprint(undefinedName)\n",
	}
	all := findDemoDiags(t, files, findDemoAllOn())
	off := findDemoAllOn()
	off.CheckNoDefine = false
	got := findDemoDiags(t, files, off)
	var want []string
	for _, d := range all {
		if !strings.Contains(d, " 2@") {
			want = append(want, d)
		}
	}
	has11 := false
	for _, d := range all {
		if strings.Contains(d, " 11@") {
			has11 = true
		}
	}
	if !has11 {
		t.Fatalf("precondition: no type-11 diagnostic with all checks on: %v", all)
	}
	if fmt.Sprint(got) != fmt.Sprint(want) {
		t.Errorf("with CheckNoDefine off:\n got:  %v\n want: %v (all-on minus type 2)", got, want)
	}
}
