package langserver

import (
	"context"
	"io/ioutil"
	"os"
	"path/filepath"
	"testing"

	lsp "luahelper-lsp/langserver/protocol"
)

// Every outline entry of a function contains the identifier that declares it, also when the function is bound by
// assignment (`name = function() end`): the range used to start at the `function` keyword.
func TestFindDemoOutlineOfAssignedFunctionContainsName(t *testing.T) {
	dir, _ := ioutil.TempDir("", "lhfinding")
	defer os.RemoveAll(dir)
	dir, _ = filepath.EvalSymlinks(dir)
	src := "gassign = function(a, b) return a end\nlocal lassign = function(x) return x end\nfunction gstat(p) return p end\nlocal function lstat(q) return q end\nlocal t = {}\nt.lf = function(z) return z end\nfunction t.sf(w) return w end\nreturn lassign, lstat, t\n"
	file := filepath.Join(dir, "a.lua")
	ioutil.WriteFile(file, []byte(src), 0o644)
	s := createLspTest(dir, "file://"+dir)
	ctx := context.Background()
	s.TextDocumentDidOpen(ctx, lsp.DidOpenTextDocumentParams{TextDocument: lsp.TextDocumentItem{URI: lsp.DocumentURI(file), Text: src}})
	syms, _ := s.TextDocumentSymbol(ctx, lsp.DocumentSymbolParams{TextDocument: lsp.TextDocumentIdentifier{URI: lsp.DocumentURI(file)}})
	want := map[string][2]uint32{ // entry name -> line, column of the declaring identifier
		"gassign(a, b)": {0, 0}, "local lassign(x)": {1, 6}, "gstat(p)": {2, 9}, "local lstat(q)": {3, 15}, "t.lf(z)": {5, 2}, "t.sf(w)": {6, 11},
	}
	found := 0
	var walk func(ss []lsp.DocumentSymbol)
	walk = func(ss []lsp.DocumentSymbol) {
		for _, sy := range ss {
			if w, ok := want[sy.Name]; ok {
				found++
				r := sy.Range
				startsAfter := r.Start.Line > w[0] || (r.Start.Line == w[0] && r.Start.Character > w[1])
				endsBefore := r.End.Line < w[0] || (r.End.Line == w[0] && r.End.Character < w[1])
				if startsAfter || endsBefore {
					t.Errorf("entry %q: range %d:%d-%d:%d does not contain its declaring identifier at %d:%d", sy.Name,
						r.Start.Line, r.Start.Character, r.End.Line, r.End.Character, w[0], w[1])
				}
			}
			walk(sy.Children)
		}
	}
	walk(syms)
	if found != len(want) {
		t.Fatalf("found %d of %d expected entries", found, len(want))
	}
}
