package annotateparser

import (
	"testing"

	"luahelper-lsp/langserver/check/annotation/annotateast"
	"luahelper-lsp/langserver/check/compiler/lexer"
)

// An `---@alias Name` line that gets no type (no `---| ...` continuation) is dropped from the block's states, but its
// line number stayed in the parallel Lines list: every later annotation of the block is then paired with the line of
// its predecessor, and the block's last annotation line is not found by line any more.
func TestFindingEmptyAliasKeepsLinesAndStatsPaired(t *testing.T) {
	lines := []string{
		"-@alias Pending",
		"-@class Shape",
		"-@field width number",
	}
	info := &lexer.CommentInfo{}
	for i, s := range lines {
		info.LineVec = append(info.LineVec, lexer.CommentLine{Str: s, Line: 10 + i, Col: 2})
	}
	fragment, errs := ParseCommentFragment(info)
	if len(errs) != 0 {
		t.Fatalf("unexpected annotation warnings: %v", errs)
	}
	if len(fragment.Stats) != len(fragment.Lines) {
		t.Fatalf("%d states but %d line numbers: the lists are out of step", len(fragment.Stats), len(fragment.Lines))
	}
	for i, st := range fragment.Stats {
		switch st.(type) {
		case *annotateast.AnnotateClassState:
			if fragment.Lines[i] != 11 {
				t.Errorf("the @class line is 11, recorded %d", fragment.Lines[i])
			}
		case *annotateast.AnnotateFieldState:
			if fragment.Lines[i] != 12 {
				t.Errorf("the @field line is 12, recorded %d", fragment.Lines[i])
			}
		}
	}
}
