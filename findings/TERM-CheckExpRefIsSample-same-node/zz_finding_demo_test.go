package langserver

import (
	"io/ioutil"
	"os"
	"path/filepath"
	"testing"
)

// An enum segment whose values are parenthesised names made CheckExpRefIsSample recurse on the
// very same ParensExp node (exp2.(*ast.ParensExp) passed back unchanged): stack overflow, which
// kills the process during start-up analysis (C01).
func TestFindingEnumParenthesisedValue(t *testing.T) {
	dir, _ := ioutil.TempDir("", "lhfinding")
	defer os.RemoveAll(dir)
	dir, _ = filepath.EvalSymlinks(dir)
	ioutil.WriteFile(filepath.Join(dir, "luahelper.json"), []byte(`{"ShowWarnFlag":1}`), 0o644)
	ioutil.WriteFile(filepath.Join(dir, "a.lua"), []byte("local b = 1\n---@enum start\nE_A = (b)\nE_B = (b)\n---@enum end\n"), 0o644)
	createLspTest(dir, "file://"+dir) // must return
}
