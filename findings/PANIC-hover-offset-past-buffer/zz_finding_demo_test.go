package langserver

import (
	"context"
	"io/ioutil"
	"os"
	"path/filepath"
	"testing"

	lsp "luahelper-lsp/langserver/protocol"
)

// A buffer that ends in a truncated multi-byte sequence (e.g. the lead byte 0xE4 as last byte, which
// an editor produces while a CJK character is being typed or a file is saved mid-write):
// OffsetForPosition stepped `getCharBytes(lead)-1` bytes past the end and returned an offset
// greater than len(contents); TextDocumentHover - unlike definition, references, rename, highlight
// and signatureHelp - did not compare the offset with the buffer length and sliced out of range:
// an unrecovered panic in a handler, i.e. the server dies (C01).
func TestFindingHoverAtEndOfTruncatedUTF8(t *testing.T) {
	dir, _ := ioutil.TempDir("", "lhfinding")
	defer os.RemoveAll(dir)
	dir, _ = filepath.EvalSymlinks(dir)
	src := "local a = 1\nprint(a)\xe4"
	file := filepath.Join(dir, "a.lua")
	ioutil.WriteFile(file, []byte(src), 0o644)
	s := createLspTest(dir, "file://"+dir)
	ctx := context.Background()
	uri := lsp.DocumentURI(file)
	s.TextDocumentDidOpen(ctx, lsp.DidOpenTextDocumentParams{TextDocument: lsp.TextDocumentItem{URI: uri, Text: src}})
	for ch := uint32(0); ch <= 10; ch++ {
		pp := lsp.TextDocumentPositionParams{TextDocument: lsp.TextDocumentIdentifier{URI: uri}, Position: lsp.Position{Line: 1, Character: ch}}
		s.TextDocumentHover(ctx, pp)
		s.TextDocumentComplete(ctx, lsp.CompletionParams{TextDocumentPositionParams: pp})
	}
}
