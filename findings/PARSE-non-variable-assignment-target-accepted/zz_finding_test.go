package parser

import "testing"

// var ::= Name | prefixexp '[' exp ']' | prefixexp '.' Name — a parenthesised expression, a call or a string is not
// something one can assign to; the parser replaced such a target by a placeholder without reporting anything
// (C03 names `(a) = 1` itself).
func TestFindingNonVariableAssignmentTarget(t *testing.T) {
	for _, src := range []string{"(a) = 1\n", "a, f() = 1, 2\n", "(\"x\") = 1\n", "a, (b) = 1, 2\n"} {
		p := CreateParser([]byte(src), "test")
		_, _, errList := p.BeginAnalyze()
		if len(errList) == 0 {
			t.Errorf("%q is not valid Lua, but no syntax error is reported", src)
		}
	}
	for _, src := range []string{"a = 1\n", "a.b, c[1] = 1, 2\n", "(a).b = 1\n", "f().x = 1\n", "f()\n"} {
		p := CreateParser([]byte(src), "test")
		_, _, errList := p.BeginAnalyze()
		for _, e := range errList {
			t.Errorf("%q is valid Lua, reported: %s", src, e.ErrStr)
		}
	}
}
