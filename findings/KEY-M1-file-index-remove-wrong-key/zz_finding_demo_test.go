package langserver

import (
	"context"
	"io/ioutil"
	"os"
	"path/filepath"
	"testing"

	"luahelper-lsp/langserver/check/common"
	lsp "luahelper-lsp/langserver/protocol"
)

// History: workspace main.lua = require("one"), one.lua exists; one.lua is deleted
// (didChangeWatchedFiles type 3). A freshly started server reports type 6 "file not found" for the
// require; the incremental server must do the same (C08) and the answer must change as soon as the
// file is deleted (C18). FileIndexInfo.RemoveOneFile deleted the inner map entry by base name
// instead of by the full path it was inserted under, so the module stayed resolvable.
func TestFindingDeletedModuleStaysResolvable(t *testing.T) {
	root, _ := ioutil.TempDir("", "lhfinding")
	root, _ = filepath.EvalSymlinks(root)
	defer os.RemoveAll(root)
	ioutil.WriteFile(root+"/luahelper.json", []byte(`{"ShowWarnFlag":1}`), 0o644)
	mainFile := root + "/main.lua"
	src := "local m = require(\"one\")\nprint(m)\n"
	ioutil.WriteFile(mainFile, []byte(src), 0o644)
	one := root + "/one.lua"
	ioutil.WriteFile(one, []byte("return {}\n"), 0o644)

	noFile := func(l *LspServer) int {
		n := 0
		for _, e := range l.getAllProject().GetAllFileErrorInfo()[mainFile] {
			if e.ErrType == common.CheckErrorNoFile {
				n++
			}
		}
		return n
	}
	l := createLspTest(root, "file://"+root)
	if n := noFile(l); n != 0 {
		t.Fatalf("before delete: %d type-6 diagnostics, want 0", n)
	}
	os.Remove(one)
	l.WorkspaceChangeWatchedFiles(context.Background(), lsp.DidChangeWatchedFilesParams{
		Changes: []lsp.FileEvent{{URI: lsp.DocumentURI("file://" + one), Type: lsp.FileChangeType(3)}}})
	got := noFile(l)
	fresh := noFile(createLspTest(root, "file://"+root))
	if fresh != 1 {
		t.Fatalf("fresh server after delete: %d type-6 diagnostics, want 1", fresh)
	}
	if got != fresh {
		t.Fatalf("after deleting one.lua the incremental server shows %d type-6 diagnostics, a fresh server %d", got, fresh)
	}
}
