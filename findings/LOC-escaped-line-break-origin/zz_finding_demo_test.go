package parser

import (
	"strings"
	"testing"

	"luahelper-lsp/langserver/check/compiler/ast"
)

// A short string may continue on the next line after a backslash. A declaration that follows the string on that
// continuation line must be located at the column where its name is written, also when the part of the string before
// the line break contains multi-byte characters.
func TestFindDemoColumnsAfterEscapedLineBreak(t *testing.T) {
	cases := []string{
		"local s = \"ab\\\ncd\"; local target = 1",
		"local s = \"中文\\\ncd\"; local target = 1",
		"local s = \"中文\\\n中\"; local target = 1",
	}
	for _, src := range cases {
		block, _, _ := CreateParser([]byte(src), "demo.lua").BeginAnalyze()
		lastLine := src[strings.LastIndex(src, "\n")+1:]
		want := len([]rune(lastLine[:strings.Index(lastLine, "target")]))
		found := false
		for _, st := range block.Stats {
			if ld, ok := st.(*ast.LocalVarDeclStat); ok {
				for i, n := range ld.NameList {
					if n == "target" {
						found = true
						if got := ld.VarLocList[i].StartColumn; got != want || ld.VarLocList[i].StartLine != 2 {
							t.Errorf("%q: local target reported at %d:%d, written at 2:%d", src, ld.VarLocList[i].StartLine, got, want)
						}
					}
				}
			}
		}
		if !found {
			t.Errorf("%q: declaration of target not found in the AST", src)
		}
	}
}
