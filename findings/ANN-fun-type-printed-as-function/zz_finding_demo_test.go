package annotateparser

import (
	"testing"

	"luahelper-lsp/langserver/check/annotation/annotateast"
	"luahelper-lsp/langserver/check/compiler/lexer"
)

// A function type is written `fun(a: T): R`; the printer writes it as `function(a: T): R`, which the parser does not read
// as a function type: printing the understood type and reading it again does not give the same type.
func TestFindingFunTypeRoundTrip(t *testing.T) {
	parse := func(typeStr string) (annotateast.Type, int) {
		info := &lexer.CommentInfo{LineVec: []lexer.CommentLine{{Str: "-@type " + typeStr, Line: 1, Col: 0}}}
		fragment, errs := ParseCommentFragment(info)
		if len(fragment.Stats) != 1 {
			return nil, len(errs)
		}
		st, ok := fragment.Stats[0].(*annotateast.AnnotateTypeState)
		if !ok || len(st.ListType) != 1 {
			return nil, len(errs)
		}
		return st.ListType[0], len(errs)
	}
	unwrap := func(ty annotateast.Type) annotateast.Type {
		for {
			m, ok := ty.(*annotateast.MultiType)
			if !ok || len(m.TypeList) != 1 {
				return ty
			}
			ty = m.TypeList[0]
		}
	}
	src := "fun(a: number): string"
	first, nerr := parse(src)
	if first == nil || nerr != 0 {
		t.Fatalf("%q not understood", src)
	}
	if _, ok := unwrap(first).(*annotateast.FuncType); !ok {
		t.Fatalf("%q understood as %T", src, unwrap(first))
	}
	printed := annotateast.TypeConvertStr(first)
	second, nerr2 := parse(printed)
	if second == nil {
		t.Fatalf("%q is printed as %q, which is not accepted (%d warnings)", src, printed, nerr2)
	}
	if _, ok := unwrap(second).(*annotateast.FuncType); !ok {
		t.Errorf("%q is printed as %q, which is read back as %T %q (%d warnings)", src, printed, unwrap(second), annotateast.TypeConvertStr(second), nerr2)
	}
}
