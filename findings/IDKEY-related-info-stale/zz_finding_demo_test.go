package langserver

import (
	"context"
	"encoding/json"
	"fmt"
	"io"
	"io/ioutil"
	"os"
	"path/filepath"
	"sort"
	"strings"
	"sync"
	"testing"

	"luahelper-lsp/langserver/check/common"
	lsp "luahelper-lsp/langserver/protocol"
)

// findDemoChan is a stand-in for the client side of the connection: it records, per URI, the last
// textDocument/publishDiagnostics notification the server has pushed (what the client "is left holding").
type findDemoChan struct {
	mu     sync.Mutex
	held   map[string]string
	closed chan struct{}
	once   sync.Once
}

func newFindDemoChan() *findDemoChan {
	return &findDemoChan{held: map[string]string{}, closed: make(chan struct{})}
}

type findDemoMsg struct {
	Method string          `json:"method"`
	Params json.RawMessage `json:"params"`
}

func (c *findDemoChan) Send(b []byte) error {
	var msgs []findDemoMsg
	var one findDemoMsg
	if err := json.Unmarshal(b, &one); err == nil {
		msgs = append(msgs, one)
	} else if err := json.Unmarshal(b, &msgs); err != nil {
		return nil
	}
	c.mu.Lock()
	defer c.mu.Unlock()
	for _, m := range msgs {
		if m.Method != "textDocument/publishDiagnostics" {
			continue
		}
		var p lsp.PublishDiagnosticsParams
		if err := json.Unmarshal(m.Params, &p); err != nil {
			continue
		}
		var lines []string
		for _, d := range p.Diagnostics {
			rel := ""
			for _, r := range d.RelatedInformation {
				rel += fmt.Sprintf(" rel@%d:%d-%d:%d", r.Location.Range.Start.Line, r.Location.Range.Start.Character,
					r.Location.Range.End.Line, r.Location.Range.End.Character)
			}
			lines = append(lines, fmt.Sprintf("  %d:%d-%d:%d sev=%d %s%s", d.Range.Start.Line, d.Range.Start.Character,
				d.Range.End.Line, d.Range.End.Character, d.Severity, d.Message, rel))
		}
		sort.Strings(lines)
		if len(lines) == 0 {
			delete(c.held, string(p.URI))
		} else {
			c.held[string(p.URI)] = strings.Join(lines, "\n")
		}
	}
	return nil
}

func (c *findDemoChan) Recv() ([]byte, error) { <-c.closed; return nil, io.EOF }
func (c *findDemoChan) Close() error          { c.once.Do(func() { close(c.closed) }); return nil }

func (c *findDemoChan) snapshot() string {
	c.mu.Lock()
	defer c.mu.Unlock()
	var uris []string
	for u := range c.held {
		uris = append(uris, u)
	}
	sort.Strings(uris)
	out := ""
	for _, u := range uris {
		out += u + "\n" + c.held[u] + "\n"
	}
	return out
}

type findDemoSession struct {
	t    *testing.T
	root string
	ctx  context.Context
	srv  *LspServer
	ch   *findDemoChan
	stop func()
}

// findDemoStart starts a real server (push enabled) on root and performs initialize/initialized.
func findDemoStart(t *testing.T, root string) *findDemoSession {
	common.GlobalConfigDefautInit()
	common.GConfig.IntialGlobalVar()
	rpc := CreateServer()
	ch := newFindDemoChan()
	rpc.Start(ch)
	s := &findDemoSession{t: t, root: root, ctx: context.Background(), srv: lspServer, ch: ch, stop: rpc.Stop}
	_, err := s.srv.Initialize(s.ctx, InitializeParams{
		InitializeParams: lsp.InitializeParams{
			InnerInitializeParams: lsp.InnerInitializeParams{
				RootPath: root,
				RootURI:  lsp.DocumentURI("file://" + root),
			},
		},
	})
	if err != nil {
		t.Fatalf("initialize: %v", err)
	}
	s.srv.Initialized(s.ctx, InitializedParams{})
	return s
}

func (s *findDemoSession) uri(name string) lsp.DocumentURI {
	return lsp.DocumentURI("file://" + s.root + "/" + name)
}

func findDemoWrite(t *testing.T, root, name, content string) {
	p := root + "/" + name
	os.MkdirAll(filepath.Dir(p), 0755)
	if err := ioutil.WriteFile(p, []byte(content), 0644); err != nil {
		t.Fatal(err)
	}
}

func (s *findDemoSession) watched(name string, typ int) {
	s.srv.WorkspaceChangeWatchedFiles(s.ctx, lsp.DidChangeWatchedFilesParams{
		Changes: []lsp.FileEvent{{URI: s.uri(name), Type: lsp.FileChangeType(typ)}},
	})
}

func (s *findDemoSession) create(name, content string) {
	findDemoWrite(s.t, s.root, name, content)
	s.watched(name, 1)
}

// change models an edit made outside the editor (git checkout, formatter, another tool): the file
// is rewritten on disk and the client reports it through workspace/didChangeWatchedFiles.
func (s *findDemoSession) change(name, content string) {
	findDemoWrite(s.t, s.root, name, content)
	s.watched(name, 2)
}

func (s *findDemoSession) remove(name string) {
	os.Remove(s.root + "/" + name)
	s.watched(name, 3)
}

func (s *findDemoSession) define(name string, line, ch uint32) string {
	data, _ := ioutil.ReadFile(s.root + "/" + name)
	s.srv.TextDocumentDidOpen(s.ctx, lsp.DidOpenTextDocumentParams{
		TextDocument: lsp.TextDocumentItem{URI: s.uri(name), Text: string(data)},
	})
	locs, _ := s.srv.TextDocumentDefine(s.ctx, lsp.TextDocumentPositionParams{
		TextDocument: lsp.TextDocumentIdentifier{URI: s.uri(name)},
		Position:     lsp.Position{Line: line, Character: ch},
	})
	s.srv.TextDocumentDidClose(s.ctx, lsp.DidCloseTextDocumentParams{
		TextDocument: lsp.TextDocumentIdentifier{URI: s.uri(name)},
	})
	out := []string{}
	for _, l := range locs {
		out = append(out, fmt.Sprintf("%s %d:%d-%d:%d", l.URI, l.Range.Start.Line, l.Range.Start.Character,
			l.Range.End.Line, l.Range.End.Character))
	}
	sort.Strings(out)
	return strings.Join(out, "\n")
}

func findDemoRoot(t *testing.T, files map[string]string) string {
	root, err := ioutil.TempDir("", "seedc08")
	if err != nil {
		t.Fatal(err)
	}
	root, _ = filepath.EvalSymlinks(root)
	for n, c := range files {
		findDemoWrite(t, root, n, c)
	}
	return root
}

// The file is rewritten on disk (outside the editor) so that the duplicate-key diagnostic keeps its
// type, text and range, but the FIRST key - the related location the diagnostic points at - moves.
// With no unsaved edits anywhere the client must hold what a freshly started server publishes.
func TestFindDemoRelatedInfoStale(t *testing.T) {
	files := map[string]string{
		"luahelper.json": `{"BaseDir":"./","ShowWarnFlag":1,"IgnoreErrorTypes":[4,17]}`,
		"w.lua":          "local t = {a=1,  b=2, a=3}\nreturn t\n",
		"other.lua":      "local a = 1\nreturn a\n",
	}
	after := "local t = { a=1, b=2, a=3}\nreturn t\n"
	root := findDemoRoot(t, files)
	defer os.RemoveAll(root)

	s := findDemoStart(t, root)
	before := s.ch.snapshot()
	s.change("w.lua", after)
	got := s.ch.snapshot()
	s.stop()

	f := findDemoStart(t, root)
	want := f.ch.snapshot()
	f.stop()

	if before == "" || want == "" || before == want {
		t.Fatalf("demo precondition: expected a diagnostic before (%q) and a different one after (%q)", before, want)
	}
	if got != want {
		t.Errorf("diagnostics held by client after history:\n%s\nfresh server publishes:\n%s", got, want)
	}
}
