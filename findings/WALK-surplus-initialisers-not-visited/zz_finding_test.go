package langserver

import (
	"context"
	"os"
	"path/filepath"
	"strings"
	"testing"

	"luahelper-lsp/langserver/check/common"
	lsp "luahelper-lsp/langserver/protocol"

	"github.com/yinfei8/jrpc2"
	"github.com/yinfei8/jrpc2/handler"
)

// `local a = 1, z, y`: Lua evaluates every expression of the list, the analysis walked only one expression more than
// there are names — `y` was reported as declared and not used although the third expression reads it.
func TestFindingSurplusInitialisersAreVisited(t *testing.T) {
	dir := t.TempDir()
	src := "local y = 2\nlocal z = 3\nlocal a = 1, z, y\nprint(a)\n"
	if err := os.WriteFile(filepath.Join(dir, "a.lua"), []byte(src), 0o644); err != nil {
		t.Fatal(err)
	}
	common.GlobalConfigDefautInit()
	common.GConfig.IntialGlobalVar()
	lspServer := CreateLspServer()
	lspServer.server = jrpc2.NewServer(handler.Map{}, &jrpc2.ServerOptions{AllowPush: false, Concurrency: 1})
	params := InitializeParams{
		InitializeParams: lsp.InitializeParams{InnerInitializeParams: lsp.InnerInitializeParams{RootPath: dir, RootURI: lsp.DocumentURI("file://" + filepath.ToSlash(dir))}},
		InitializationOptions: &InitializationOptions{
			LocalRun: true, AllEnable: true, CheckSyntax: true, CheckNoDefine: true, CheckAfterDefine: true, CheckLocalNoUse: true,
		},
	}
	if _, err := lspServer.Initialize(context.Background(), params); err != nil {
		t.Fatal(err)
	}
	for file, errs := range lspServer.getAllProject().GetAllFileErrorInfo() {
		for _, e := range errs {
			t.Logf("%s: type %d %s", filepath.Base(file), e.ErrType, e.ErrStr)
			if strings.Contains(e.ErrStr, "y") && e.ErrType == common.CheckErrorLocalNoUse {
				t.Errorf("y is read by the third initialiser, but reported: %s", e.ErrStr)
			}
		}
	}
}
