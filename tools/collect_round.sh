#!/bin/bash
# collect_round.sh <N> : verify every seed of round N found under /tmp/seed<N>/out/<id>/m<k> (not yet stored), store the
# confirmed ones as seeded/r<N>-<id>-m<k>, then compute their detection matrix.
N=$1
cd /verif
for d in /tmp/seed$N/out/C*/m*; do
  [ -f $d/patch.diff ] || continue
  id=$(basename $(dirname $d)); m=$(basename $d); name=r$N-$id-$m
  [ -d seeded/$name ] && continue
  tools/verify_seed.sh $id $d $name 2>&1 | tail -1
done
tools/seed_matrix.sh $(ls seeded | grep "^r$N-")
