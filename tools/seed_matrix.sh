#!/bin/bash
# seed_matrix.sh : for every seed, which claimed property checks report a NEW violation on the patched tree; updates seeded/*/meta.json
cd /verif
PROPS=$(python3 -c "import json;print(' '.join(c['property_id'] for c in json.load(open('MANIFEST.json'))['checks']))")
for s in $(ls seeded); do
  own=$(python3 -c "import json;print(json.load(open('seeded/$s/meta.json'))['property'])")
  out=$(tools/check_seed.sh $s $PROPS 2>&1)
  det=$(echo "$out" | grep "DETECTED by" | sed 's/.*DETECTED by //' | tr '\n' ' ')
  keys=$(echo "$out" | grep "^    " | sed 's/^ *//' | sort -u | tr '\n' ';')
  echo "$s own=$own detected_by=[$det]"
  python3 - "$s" "$det" "$keys" <<'PY'
import json,sys
s,det,keys=sys.argv[1:4]
p='/verif/seeded/%s/meta.json'%s
m=json.load(open(p))
m['detected_by']=det.split()
m['violation_keys']=[k for k in keys.split(';') if k]
json.dump(m,open(p,'w'),indent=1,ensure_ascii=False)
PY
done
