#!/bin/bash
# seed_matrix.sh [seed ...] : for every seed (default: all), which claimed properties report a NEW violation key on the
# patched tree (one load per seed via `lhcheck -keys`); updates seeded/*/meta.json and prints one line per seed.
cd /verif
SEEDS="$@"; [ -z "$SEEDS" ] && SEEDS=$(ls seeded)
bin/lhcheck -keys | sort -u > /tmp/lh_base_keys.txt
for s in $SEEDS; do
  D=/verif/seeded/$s
  WT=/tmp/lhseedm_$$_$(echo $s | tr -c 'A-Za-z0-9\n' '_')
  mkdir -p $WT && rsync -a --exclude .git /repo/ $WT/
  if ! (cd $WT && patch -p1 -s --no-backup-if-mismatch < $D/patch.diff >/dev/null 2>&1); then echo "$s: patch does not apply"; rm -rf $WT; continue; fi
  bin/lhcheck -keys -repo $WT | sort -u > /tmp/lh_seed_keys.txt
  rm -rf $WT
  new=$(comm -13 /tmp/lh_base_keys.txt /tmp/lh_seed_keys.txt)
  python3 - "$s" "$new" <<'PY'
import json,sys
s,new=sys.argv[1],sys.argv[2]
p='/verif/seeded/%s/meta.json'%s
m=json.load(open(p))
props=sorted({l.split()[1] for l in new.splitlines() if l.startswith('KEY ')})
keys=sorted({l.split(None,3)[3] for l in new.splitlines() if l.startswith('KEY ')})
m['detected_by']=props
m['violation_keys']=keys
json.dump(m,open(p,'w'),indent=1,ensure_ascii=False)
print("%s own=%s detected_by=%s%s"%(s,m['property'],props,("  keys="+"; ".join(keys)[:160]) if keys else ""))
PY
done
