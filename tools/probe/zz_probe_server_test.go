package langserver

import (
	"context"

	"luahelper-lsp/langserver/check/common"
	lsp "luahelper-lsp/langserver/protocol"

	"github.com/yinfei8/jrpc2"
	"github.com/yinfei8/jrpc2/handler"
)

func findingProbeServer(dir string) *LspServer {
	common.GlobalConfigDefautInit()
	common.GConfig.IntialGlobalVar()
	s := CreateLspServer()
	s.server = jrpc2.NewServer(handler.Map{}, &jrpc2.ServerOptions{AllowPush: false, Concurrency: 1})
	s.Initialize(context.Background(), InitializeParams{
		InitializeParams:      lsp.InitializeParams{InnerInitializeParams: lsp.InnerInitializeParams{RootPath: dir, RootURI: lsp.DocumentURI("file://" + dir)}},
		InitializationOptions: &InitializationOptions{AllEnable: true, CheckSyntax: true, CheckNoDefine: true, CheckAfterDefine: true, CheckLocalNoUse: true, CheckTableDuplicateKey: true, CheckReferNoFile: true, CheckAssignParamNum: true, CheckLocalDefineParamNum: true, CheckGotoLable: true, CheckFuncParam: true, CheckImportModuleVar: true, CheckIfNotVar: true, CheckFunctionDuplicateParam: true, CheckBinaryExpressionDuplicate: true, CheckErrorOrAlwaysTrue: true, CheckErrorAndAlwaysFalse: true, CheckNoUseAssign: true, CheckAnnotateType: true, CheckDuplicateIf: true, CheckSelfAssign: true, CheckFloatEq: true, CheckClassField: true, CheckConstAssign: true, CheckFuncParamType: true, CheckFuncReturnType: true},
	})
	return s
}
