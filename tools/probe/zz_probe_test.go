package langserver

// Triage tool (NOT a check): drives the real server over a workspace directory given in
// LH_PROBE_DIR, issuing every position-based request at every position of every .lua file.
// Used only to confirm or refute, against the real code, a construct that a static rule reported.

import (
	"context"
	"io/ioutil"
	"os"
	"path/filepath"
	"strings"
	"testing"

	lsp "luahelper-lsp/langserver/protocol"
)

func TestProbeWorkspace(t *testing.T) {
	dir := os.Getenv("LH_PROBE_DIR")
	if dir == "" {
		t.Skip("LH_PROBE_DIR not set")
	}
	dir, _ = filepath.EvalSymlinks(dir)
	s := findingProbeServer(dir)
	ctx := context.Background()
	files, _ := filepath.Glob(filepath.Join(dir, "*.lua"))
	for _, f := range files {
		b, _ := ioutil.ReadFile(f)
		src := string(b)
		uri := lsp.DocumentURI(f)
		s.TextDocumentDidOpen(ctx, lsp.DidOpenTextDocumentParams{TextDocument: lsp.TextDocumentItem{URI: uri, Text: src}})
		id := lsp.TextDocumentIdentifier{URI: uri}
		s.TextDocumentSymbol(ctx, lsp.DocumentSymbolParams{TextDocument: id})
		for li, line := range strings.Split(src, "\n") {
			for ch := 0; ch <= len(line); ch++ {
				pos := lsp.Position{Line: uint32(li), Character: uint32(ch)}
				pp := lsp.TextDocumentPositionParams{TextDocument: id, Position: pos}
				s.TextDocumentHover(ctx, pp)
				s.TextDocumentDefine(ctx, pp)
				s.TextDocumentComplete(ctx, lsp.CompletionParams{TextDocumentPositionParams: pp})
				s.TextDocumentHighlight(ctx, pp)
				s.TextDocumentSignatureHelp(ctx, pp)
				s.TextDocumentReferences(ctx, lsp.ReferenceParams{TextDocumentPositionParams: pp, Context: lsp.ReferenceContext{IncludeDeclaration: true}})
			}
		}
	}
}
