#!/bin/bash
# sweep_rule.sh <binary> <property> <key-prefix> <jobs> : run one property's quick check with <binary> on a scratch copy of
# every neutral and every seeded patch and print the patches on which an obligation whose key starts with <key-prefix>
# is violated (used to try a newly written rule on all stored patches without repeating the full matrices).
BIN=$1; PROP=$2; PFX=$3; JOBS=$4
one() {
  BIN=$1; PROP=$2; PFX=$3; d=$4
  tag=$(echo $d | tr -c 'A-Za-z0-9\n' '_')
  WT=/tmp/lhsweep_$tag
  rm -rf $WT; mkdir -p $WT && rsync -a --exclude .git /repo/ $WT/
  if ! (cd $WT && patch -p1 -s --no-backup-if-mismatch < /verif/$d/patch.diff >/dev/null 2>&1); then echo "$d: patch does not apply"; rm -rf $WT; return; fi
  out=$(cd /tmp && $BIN -property $PROP -tier quick -no-evidence -repo $WT 2>&1 | grep "VIOLATION $PFX" | cut -c1-200)
  rm -rf $WT
  if [ -n "$out" ]; then echo "$d: FIRES"; echo "$out" | sed 's/^/    /'; else echo "$d: quiet"; fi
}
export -f one
cd /verif
ls -d neutral/* seeded/* | xargs -P $JOBS -I{} bash -c "one $BIN $PROP $PFX {}"
