#!/bin/bash
# probe.sh <workspace-dir> : triage tool — runs every position-based request over a workspace against a scratch copy of /repo
set -u
export GOFLAGS=-mod=mod GOPROXY=off GOSUMDB=off GOTOOLCHAIN=local
WT=/tmp/lhprobe_$$
mkdir -p $WT && rsync -a --exclude .git /repo/ $WT/
cp /verif/tools/probe/*.go $WT/luahelper-lsp/langserver/
( cd $WT/luahelper-lsp && LH_PROBE_DIR=$1 go test -vet=off -count=1 -timeout 120s -run TestProbeWorkspace ./langserver/ 2>&1 | grep -v "^\s" | head -${TAILN:-30} )
rm -rf $WT
