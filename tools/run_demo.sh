#!/bin/bash
# run_demo.sh <demo_test.go> <pkgdir rel to luahelper-lsp> <-run regexp> [git-rev (default: working tree of /repo)]
# Runs a demonstration test against a scratch copy of /repo (never inside /repo itself).
set -u
DEMO=$1; PKG=$2; RUN=$3; REV=${4:-WORKTREE}
export GOFLAGS=-mod=mod GOPROXY=off GOSUMDB=off GOTOOLCHAIN=local
WT=/tmp/lhdemo_$$
if [ "$REV" = WORKTREE ]; then
  mkdir -p $WT && rsync -a --exclude .git /repo/ $WT/
else
  git -C /repo worktree add --detach $WT $REV >/dev/null 2>&1 || exit 2
fi
cp $DEMO $WT/luahelper-lsp/$PKG/
( cd $WT/luahelper-lsp && go test -vet=off -count=1 -timeout 120s ${GOTESTV:-} -run "$RUN" ./$PKG/ 2>&1 | tail -${TAILN:-25} ; exit ${PIPESTATUS[0]} ); rc=$?
if [ "$REV" = WORKTREE ]; then rm -rf $WT; else git -C /repo worktree remove --force $WT >/dev/null 2>&1; fi
echo "demo rc=$rc (rev=$REV)"
exit $rc
