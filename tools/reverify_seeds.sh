#!/bin/bash
# reverify_seeds.sh [seed ...] : re-confirm stored seeds against /repo HEAD (demo passes clean, fails with patch,
# suite passes with patch) and record the outcome in meta.json under "reverified" (HEAD, status). 4 in parallel.
set -u
cd /verif
SEEDS="$@"; [ -z "$SEEDS" ] && SEEDS=$(ls seeded)
HEAD=$(git -C /repo rev-parse --short HEAD)
export GOFLAGS=-mod=mod GOPROXY=off GOSUMDB=off GOTOOLCHAIN=local
one() {
  NAME=$1; SRC=/verif/seeded/$NAME
  WT=/tmp/rvseed_$$_$(echo $NAME | tr -c "A-Za-z0-9\n" "_")
  git -C /repo worktree add --detach $WT HEAD >/dev/null 2>&1 || { echo "$NAME worktree-failed"; return; }
  WHERE=$(cat $SRC/where.txt | tr -d '\n\r '); RUN=$(head -1 $SRC/run.txt)
  cp $SRC/zz_seed_demo_test.go $WT/$WHERE/
  st=confirmed
  ( cd $WT/luahelper-lsp && eval "$RUN" >/dev/null 2>&1 ) || st=demo-fails-on-clean
  if [ $st = confirmed ]; then
    if ! (cd $WT && patch -p1 -s --no-backup-if-mismatch < $SRC/patch.diff >/dev/null 2>&1); then st=patch-does-not-apply
    elif ! (cd $WT/luahelper-lsp && go build ./... >/dev/null 2>&1); then st=does-not-build
    elif (cd $WT/luahelper-lsp && eval "$RUN" >/dev/null 2>&1); then st=neutralised-demo-passes-with-patch
    else rm -f $WT/$WHERE/zz_seed_demo_test.go; (cd $WT/luahelper-lsp && go test -vet=off -count=1 ./... >/dev/null 2>&1) || st=suite-fails
    fi
  fi
  git -C /repo worktree remove --force $WT >/dev/null 2>&1
  python3 - "$SRC/meta.json" "$HEAD" "$st" <<'PY'
import json,sys
p,head,st=sys.argv[1:4]
d=json.load(open(p)); d["reverified"]={"repo_head":head,"status":st}; json.dump(d,open(p,'w'),indent=1)
PY
  echo "$NAME $st"
}
export -f one
echo $SEEDS | tr ' ' '\n' | xargs -P 4 -I{} bash -c 'one {}'
git -C /repo worktree prune
