#!/bin/bash
# neutral_matrix.sh [name ...] : behaviour-preserving refactorings stored under /verif/neutral/<name>/patch.diff:
# any NEW non-OK key on the patched tree is a false alarm of the checker (to be fixed in the rule).
cd /verif
NAMES="$@"; [ -z "$NAMES" ] && NAMES=$(ls neutral)
bin/lhcheck -keys | sort -u > /tmp/lh_nbase_keys.txt
for s in $NAMES; do
  D=/verif/neutral/$s
  WT=/tmp/lhneutral_$$_$(echo $s | tr -c 'A-Za-z0-9\n' '_')
  mkdir -p $WT && rsync -a --exclude .git /repo/ $WT/
  if ! (cd $WT && patch -p1 -s --no-backup-if-mismatch < $D/patch.diff >/dev/null 2>&1); then echo "$s: patch does not apply"; rm -rf $WT; continue; fi
  bin/lhcheck -keys -repo $WT 2>&1 | sort -u > /tmp/lh_neutral_keys.txt
  rm -rf $WT
  new=$(comm -13 /tmp/lh_nbase_keys.txt /tmp/lh_neutral_keys.txt)
  if [ -z "$new" ]; then echo "$s: silent"; else echo "$s: ALARM"; echo "$new" | cut -c1-220 | sed 's/^/    /'; fi
done
