#!/bin/bash
# check_seed.sh <seed-name> [property ...] : applies seeded/<name>/patch.diff to a scratch copy of /repo's working tree
# and runs the lhcheck quick check of the given properties (default: the seed's own property) against it.
set -u
NAME=$1; shift
D=/verif/seeded/$NAME
PROPS="$@"
[ -z "$PROPS" ] && PROPS=$(python3 -c "import json;print(json.load(open('$D/meta.json'))['property'])")
WT=/tmp/lhseed_$$_$(echo $NAME | tr -c 'A-Za-z0-9\n' '_')
mkdir -p $WT && rsync -a --exclude .git /repo/ $WT/
if ! (cd $WT && patch -p1 -s --no-backup-if-mismatch < $D/patch.diff >/dev/null 2>&1); then echo "SEED $NAME: patch does not apply to current tree"; rm -rf $WT; exit 2; fi
rc_all=0
for P in $PROPS; do
  out=$(/verif/bin/lhcheck -property $P -repo $WT -no-evidence 2>&1); rc=$?
  if [ $rc -ne 0 ]; then
    echo "SEED $NAME: DETECTED by $P"; echo "$out" | grep -E "VIOLATION|UNDECIDED|VACUOUS" | grep -v "^VIOLATION property" | cut -c1-${CUT:-260} | sed 's/^/    /' | head -${HEADN:-4}
    rc_all=1
  else
    echo "SEED $NAME: missed by $P"
  fi
done
rm -rf $WT
exit $rc_all
