#!/bin/bash
# check_seed.sh <seed-name> [property ...] : applies seeded/<name>/patch.diff to a scratch copy of /repo's working tree,
# runs the lhcheck quick check of the given properties (default: the seed's own) on it, and reports the violation keys that
# are NEW with respect to the unpatched tree.
set -u
NAME=$1; shift
D=/verif/seeded/$NAME
PROPS="$@"
[ -z "$PROPS" ] && PROPS=$(python3 -c "import json;print(json.load(open('$D/meta.json'))['property'])")
WT=/tmp/lhseed_$$_$(echo $NAME | tr -c 'A-Za-z0-9\n' '_')
mkdir -p $WT && rsync -a --exclude .git /repo/ $WT/
if ! (cd $WT && patch -p1 -s --no-backup-if-mismatch < $D/patch.diff >/dev/null 2>&1); then echo "SEED $NAME: patch does not apply to current tree"; rm -rf $WT; exit 2; fi
rc_all=0
keys() { grep -E ": (VIOLATION|UNDECIDED|VACUOUS) " | sed -E 's/^[^ ]+ (VIOLATION|UNDECIDED|VACUOUS) ([^ ]+): .*/\2/' | sort -u; }
for P in $PROPS; do
  if ! /verif/bin/lhcheck -list | grep -q "^$P$"; then echo "SEED $NAME: $P not claimed"; continue; fi
  base=$(/verif/bin/lhcheck -property $P -no-evidence 2>&1 | keys)
  out=$(/verif/bin/lhcheck -property $P -repo $WT -no-evidence 2>&1)
  new=$(comm -13 <(echo "$base") <(echo "$out" | keys))
  if [ -n "$new" ]; then
    echo "SEED $NAME: DETECTED by $P"; echo "$new" | head -${HEADN:-3} | cut -c1-${CUT:-240} | sed 's/^/    /'
    rc_all=1
  else
    echo "SEED $NAME: missed by $P"
  fi
done
rm -rf $WT
exit $rc_all
