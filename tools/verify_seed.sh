#!/bin/bash
# verify_seed.sh <PROP> <m-dir> <name>  : confirm a seeded change in a scratch worktree and store it under /verif/seeded/<name>/
# Checks: demo passes on clean tree; patch applies; builds; demo fails with patch; full suite passes with patch (demo removed).
set -u
PROP=$1; SRC=$(realpath $2); NAME=$3
export GOFLAGS=-mod=mod GOPROXY=off GOSUMDB=off GOTOOLCHAIN=local
WT=/tmp/vseed_$$_$(echo $NAME | tr -c "A-Za-z0-9\n" "_")
git -C /repo worktree add --detach $WT HEAD >/dev/null 2>&1 || { echo "worktree failed"; exit 2; }
trap 'git -C /repo worktree remove --force $WT >/dev/null 2>&1' EXIT
WHERE=$(cat $SRC/where.txt | tr -d '\n\r ')
RUN=$(cat $SRC/run.txt | head -1)
cp $SRC/zz_seed_demo_test.go $WT/$WHERE/ || exit 2
cd $WT/luahelper-lsp
clean_out=$(eval "$RUN" 2>&1); clean_rc=$?
(cd $WT && patch -p1 -s --no-backup-if-mismatch < $SRC/patch.diff >/dev/null 2>&1) || { echo "RESULT $NAME patch-does-not-apply"; exit 1; }
go build ./... || { echo "RESULT $NAME does-not-build"; exit 1; }
mut_out=$(eval "$RUN" 2>&1); mut_rc=$?
rm -f $WT/$WHERE/zz_seed_demo_test.go
suite_out=$(go test -vet=off -count=1 ./... 2>&1); suite_rc=$?
echo "clean_rc=$clean_rc mut_rc=$mut_rc suite_rc=$suite_rc"
if [ $clean_rc -ne 0 ]; then echo "$clean_out" | tail -15; echo "RESULT $NAME demo-fails-on-clean"; exit 1; fi
if [ $mut_rc -eq 0 ]; then echo "RESULT $NAME demo-passes-with-patch"; exit 1; fi
if [ $suite_rc -ne 0 ]; then echo "$suite_out" | tail -15; echo "RESULT $NAME suite-fails"; exit 1; fi
D=/verif/seeded/$NAME; mkdir -p $D
cp $SRC/patch.diff $SRC/zz_seed_demo_test.go $SRC/where.txt $SRC/run.txt $D/
[ -f $SRC/notes.md ] && cp $SRC/notes.md $D/
python3 - "$D" "$PROP" "$RUN" "$WHERE" <<'PY'
import json,sys,os
d,prop,run,where=sys.argv[1:5]
notes=open(os.path.join(d,'notes.md')).read() if os.path.exists(os.path.join(d,'notes.md')) else ''
meta={"property":prop,"needs_to_manifest":notes[:1500],"demo":"zz_seed_demo_test.go","demo_dir":where,"demo_cmd":run,
 "confirmed":{"demo_on_clean_tree":"pass","demo_with_patch":"fail","existing_suite_with_patch":"pass","how":"tools/verify_seed.sh in a scratch worktree of /repo HEAD"},
 "detected_by":[]}
json.dump(meta,open(os.path.join(d,'meta.json'),'w'),indent=1)
PY
echo "RESULT $NAME confirmed"
