#!/usr/bin/env python3
"""Generates /verif/MANIFEST.json from the table below (kept in one place so it stays valid)."""
import json, sys, os
V = os.path.dirname(os.path.dirname(os.path.abspath(__file__)))
SETUP = "cd lhcheck && GOFLAGS=-mod=mod GOPROXY=off GOSUMDB=off GOTOOLCHAIN=local GOWORK=off go build -o ../bin/lhcheck ."
NOTE_BASE = "Trusted: go/packages, go/types, go/ssa, VTA/CHA call graphs of golang.org/x/tools v0.29.0 and the Go 1.23 type checker; the hand-written slot tables of lhcheck (each slot fails loudly when it no longer resolves); call-graph completeness for non-reflective calls. Nothing of /repo is executed."
claims = json.load(open(os.path.join(V, "tools", "claims.json")))
checks = []
for c in claims["claimed"]:
    pid = c["id"]
    checks.append({
        "property_id": pid,
        "quick_cmd": f"bin/lhcheck -property {pid} -tier quick",
        "thorough_cmd": f"bin/lhcheck -property {pid} -tier thorough",
        "evidence_file": f"evidence/{pid}.json",
        "replay_cmd_template": "bin/lhcheck -replay {path}",
        "engine": "lhcheck",
        "level_claimed": {"category": "other", "text": c["text"], "design_ref": c["design_ref"]},
        "level_note": c.get("note", "") + " " + NOTE_BASE,
        "technique": c["technique"],
    })
m = {
    "version": 1,
    "setup_cmd": SETUP,
    "hooks": {"guard": "verif", "enable": "none needed: static analysis loads /repo's working tree from source; no hooks are compiled in",
              "baseline_off_cmd": "cd /repo/luahelper-lsp && GOFLAGS=-mod=mod go test -vet=off -count=1 ./...",
              "source_commits": [], "add_only": True},
    "engines": [{"name": "lhcheck", "path": "lhcheck/", "serves_properties": [c["id"] for c in claims["claimed"]],
                 "kind_free_text": "repository-specific static analyser (go/packages + go/types + go/ssa + VTA call graph): custom rule engines per property, obligations keyed by rule+construct, floors against vacuity"}],
    "checks": checks,
    "notes": claims.get("notes", ""),
    "not_applicable": claims["not_applicable"],
}
json.dump(m, open(os.path.join(V, "MANIFEST.json"), "w"), indent=1)
print("MANIFEST.json written:", len(checks), "checks,", len(m["not_applicable"]), "not applicable")
