#!/bin/bash
# par_matrix.sh <seeded|neutral> <jobs> [name ...] : the work of seed_matrix.sh / neutral_matrix.sh, <jobs> items at a time.
# Every item gets its own scratch copy and its own key file; the base keys are computed once. Output lines as in the
# sequential scripts (seeded: also updates meta.json).
KIND=$1; JOBS=$2; shift 2
cd /verif
NAMES="$@"; [ -z "$NAMES" ] && NAMES=$(ls $KIND)
BASE=/tmp/lh_par_base_$$.txt
bin/lhcheck -keys | sort -u > $BASE
one() {
  KIND=$1; BASE=$2; s=$3
  D=/verif/$KIND/$s
  tag=$(echo $s | tr -c 'A-Za-z0-9\n' '_')
  WT=/tmp/lhpar_${KIND}_$tag
  K=/tmp/lhpar_keys_${KIND}_$tag.txt
  rm -rf $WT; mkdir -p $WT && rsync -a --exclude .git /repo/ $WT/
  if ! (cd $WT && patch -p1 -s --no-backup-if-mismatch < $D/patch.diff >/dev/null 2>&1); then echo "$s: patch does not apply"; rm -rf $WT; return; fi
  /verif/bin/lhcheck -keys -repo $WT 2>&1 | sort -u > $K
  rm -rf $WT
  new=$(comm -13 $BASE $K); rm -f $K
  if [ "$KIND" = neutral ]; then
    if [ -z "$new" ]; then echo "$s: silent"; else echo "$s: ALARM"; echo "$new" | cut -c1-220 | sed 's/^/    /'; fi
  else
    python3 - "$s" "$new" <<'PY'
import json,sys
s,new=sys.argv[1],sys.argv[2]
p='/verif/seeded/%s/meta.json'%s
m=json.load(open(p))
props=sorted({l.split()[1] for l in new.splitlines() if l.startswith('KEY ')})
keys=sorted({l.split(None,3)[3] for l in new.splitlines() if l.startswith('KEY ')})
m['detected_by']=props
m['violation_keys']=keys
json.dump(m,open(p,'w'),indent=1,ensure_ascii=False)
print("%s own=%s detected_by=%s%s"%(s,m['property'],props,("  keys="+"; ".join(keys)[:160]) if keys else ""))
PY
  fi
}
export -f one
printf '%s\n' $NAMES | xargs -P $JOBS -I{} bash -c "one $KIND $BASE {}"
rm -f $BASE
